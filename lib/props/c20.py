"""C20 — combined scenarios run every component, in order, in setup and in each iteration."""
import vlib
import lifecycle


def normalize(entries):
    # component calls, the cleanups they registered on the handle they were given, and the outcome counts
    return [dict(e, p=[]) if e["t"] == "R" else e for e in entries if e["t"] in ("R", "E")]


def concern(exp, obs):
    es = [e for e in exp if e["t"] == "E" and e["f"] == "s"]
    os_ = [e for e in obs if e["t"] == "E" and e["f"] == "s"]
    if es != os_:
        return "component-setups-differ"
    eb = [e for e in exp if e["t"] == "E" and e["f"] == "b"]
    ob = [e for e in obs if e["t"] == "E" and e["f"] == "b"]
    if eb != ob:
        return "component-iteration-calls-differ"
    if [e for e in exp if e["t"] == "E"] != [e for e in obs if e["t"] == "E"]:
        return "component-cleanups-differ"
    return "iteration-outcome-differs"


def run(tier, seed, replay_rows=None):
    ck = vlib.Check("C20", tier, seed)
    ck.rule = ("a behaviour = TLC-chosen programs for 2-3 combined components over 2-3 iterations replayed on the real "
               "f1.CombineScenarios through Run.Do; distinct by program")
    ck.assumptions = ["handle identity is exercised through cleanups: a component's cleanup registered on the handle it was "
                      "given must run with that owner (setup handle vs iteration handle)"]
    q = tier == "quick"
    cfgs = [(None if q else "MC_Lifecycle_3x2.cfg", "Gen_Lifecycle_2x2.cfg", 2, 2, None, 4 if q else 1),
            (None, "Gen_Lifecycle_2x3.cfg", 2, 3, 600 if q else 6000, 1),
            (None, "Gen_Lifecycle_3x2.cfg", 3, 2, 600 if q else 6000, 1)]
    lifecycle.run_property(ck, cfgs, normalize, concern, replay_rows=replay_rows)
    if replay_rows is None:
        # the same statement under the config-file trigger, with iterations in flight across the stages' pools
        import json
        vlib.flow(ck, mcs=[], sub="c20file", trace_module="Trace_Combined", trace_cfg="Trace_Combined.cfg",
                  trace_file="c20file.ndjson", var="l",
                  key_of=lambda r: "combined-iteration-not-run-in-order-on-its-own-handle@file",
                  describe=lambda r: json.dumps(r)[:600], workers=2)
    return ck.finish()


def replay(path, seed):
    import json
    if json.load(open(path))["replay"].get("sub") == "c20file":
        return run("quick", seed)          # observations under the file trigger are re-made on the current tree
    return vlib.std_replay(run, path, seed)
