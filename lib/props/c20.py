"""C20 — combined scenarios run every component, in order, in setup and in each iteration."""
import vlib
import lifecycle


def normalize(entries):
    # component calls, the cleanups they registered on the handle they were given, and the outcome counts
    return [dict(e, p=[]) if e["t"] == "R" else e for e in entries if e["t"] in ("R", "E")]


def concern(exp, obs):
    es = [e for e in exp if e["t"] == "E" and e["f"] == "s"]
    os_ = [e for e in obs if e["t"] == "E" and e["f"] == "s"]
    if es != os_:
        return "component-setups-differ"
    eb = [e for e in exp if e["t"] == "E" and e["f"] == "b"]
    ob = [e for e in obs if e["t"] == "E" and e["f"] == "b"]
    if eb != ob:
        return "component-iteration-calls-differ"
    if [e for e in exp if e["t"] == "E"] != [e for e in obs if e["t"] == "E"]:
        return "component-cleanups-differ"
    return "iteration-outcome-differs"


def run(tier, seed, replay_rows=None):
    ck = vlib.Check("C20", tier, seed)
    ck.rule = ("a behaviour = TLC-chosen programs for 2-3 combined components over 2-3 iterations replayed on the real "
               "f1.CombineScenarios through Run.Do; distinct by program")
    ck.assumptions = ["handle identity is exercised through cleanups: a component's cleanup registered on the handle it was "
                      "given must run with that owner (setup handle vs iteration handle)"]
    q = tier == "quick"
    cfgs = [(None if q else "MC_Lifecycle_3x2.cfg", "Gen_Lifecycle_2x2.cfg", 2, 2, None, 4 if q else 1),
            (None, "Gen_Lifecycle_2x3.cfg", 2, 3, 600 if q else 6000, 1),
            (None, "Gen_Lifecycle_3x2.cfg", 3, 2, 600 if q else 6000, 1)]
    lifecycle.run_property(ck, cfgs, normalize, concern, replay_rows=replay_rows)
    return ck.finish()


def replay(path, seed):
    return vlib.std_replay(run, path, seed)
