"""C11 — gaussian profile delivers the configured volume per window and peaks on time."""
import copy
import json
import vlib


def selftest(rows):
    muts = []
    for t in rows:
        if t["windows"] and len(muts) < 3 and t["V"] >= 1000 and t["windows"][0]["S"] >= 500 and t["via"] != "rates-jitter":
            m = copy.deepcopy(t)
            m["windows"][0]["S"] = int(m["windows"][0]["S"] * 0.9)      # a tenth of the volume lost
            muts.append(m)
    for t in rows:
        if t["windows"] and len(muts) < 5:
            m = copy.deepcopy(t)
            m["windows"][-1]["minv"] = -1                                # a negative request
            muts.append(m)
    for t in rows:
        if t["n"] >= 3 and len({w["wk"] for w in t["windows"]}) > 1 and len(muts) < 8:
            m = copy.deepcopy(t)
            ws = m["windows"]
            ws[0]["S"], ws[1]["S"] = ws[1]["S"], ws[0]["S"]              # weights applied to the wrong window
            if ws[0]["wk"] != ws[1]["wk"] and abs(ws[0]["S"] - ws[1]["S"]) > 4 * max(ws[0]["tol"], ws[1]["tol"]) and t["via"] != "rates-jitter":
                muts.append(m)
    return muts


def run(tier, seed, replay_rows=None):
    ck = vlib.Check("C11", tier, seed)
    ck.rule = ("a trace = the real gaussian calculator (NewCalculator.For and CalculateGaussianRate.Rate) driven tick by tick "
               "over len(weights)+1 whole repeat windows from a random absolute window start: volume 100..10^5, 24..1440 ticks "
               "per window, peak in the middle half of the window, sigma between one tick and an eighth of the window, 0/2/3/5/7 "
               "weights; per window the sum, min, max and the value at the tick nearest the peak; non-trivial = every trace; "
               "distinct by arguments")
    ck.assumptions = ["the discretisation tolerance per window is computed by the harness from the INPUTS with Go's math package "
                      "(1.5 x the Riemann-sum edge terms f*(phi(0)+phi(R-f)+phi(R))/mass, + 2 for the carry, + 1e-6 V): TLC has no exp/erfc",
                      "domain: frequency divides the repeat window, peak inside the window, sigma >= one tick"]
    # unbounded: the carry relations are an inductive invariant for every ideal rate and any number of ticks
    vlib.inductive(ck, "GaussCarryInd", mutant="GaussCarryIndMut")
    vlib.flow(ck, mcs=[("GaussCarry", "MC_GaussCarry.cfg", dict(workers=4, timeout=300))],
              sub="c11", trace_module="Trace_GaussCarry", trace_cfg="Trace_GaussCarry.cfg", trace_file="c11.ndjson",
              key_of=lambda t: "calculator-rejected-or-panicked" if t["panicked"] else "window-volume-or-shape",
              nontrivial=lambda t: True, distinct_key=lambda t: t["args"] + t["via"],
              describe=lambda t: json.dumps(dict(args=t["args"], V=t["V"], W=t["W"], n=t["n"], err=t.get("err"), windows=t["windows"][:8]))[:1200],
              selftest=selftest, replay_rows=replay_rows, workers=4)
    return ck.finish()


def replay(path, seed):
    return vlib.std_replay(run, path, seed)
