"""C18 — the periodic progress runner fires only while running; quiescent after Stop."""
import json
import vlib
import runtraces


def run(tier, seed, replay_rows=None):
    ck = vlib.Check("C18", tier, seed)
    ck.rule = ("a trace = (1) negative replay: the runner goroutine is parked on a due tick (hook rr.tick), Stop is called, "
               "the tick is released 150 ms later; or (2) a random sequence New/Start/Restart*/Stop|cancel on 1-3 schedules "
               "(start delays 0-70 ms or 4 s, frequencies 2-15 ms, function duration 0-3 ms) with every invocation "
               "(frequency argument, begin/end time) logged; non-trivial = every trace; distinct by schedule+event count")
    ck.assumptions = ["timers never fire early; upper timing bounds are not asserted, only lower bounds and counts",
                      "a Restart is logged before the call; calls of later schedules within 25 ms after it are attributed "
                      "to the not-yet-processed restart"]
    kw = dict(workers=8, timeout=600)
    r = vlib.run_tlc("RateRunner", "Mut_RateRunner_StopNoWait.cfg", **kw)
    if r.violated != "QuiescentAfterStop":
        raise vlib.MachineryError("Mut_RateRunner_StopNoWait should violate QuiescentAfterStop: %s" % r.summary())
    ck.add_tlc("Mut_RateRunner_StopNoWait.cfg", r)
    for cfg in ("MC_RateRunner.cfg",):
        r = vlib.run_tlc("RateRunner", cfg, **kw)
        vlib.require_tlc_ok(r, cfg)
        ck.add_tlc(cfg, r)
    binary = vlib.build_harness()
    import os
    with vlib.Scratch("verif-c18-") as d:
        if replay_rows is None:
            vlib.run_drive(binary, "c18", ["-out", d, "-tier", tier, "-seed", seed], timeout=1800)
            f = os.path.join(d, "c18.ndjson")
        else:
            f = os.path.join(d, "c18.ndjson")
            vlib.write_ndjson(f, replay_rows)
        rows = vlib.read_ndjson(f)
        res, bad = vlib.validate_rows("Trace_RateRunner", "Trace_RateRunner.cfg", f, var="tr", workers=4)
    ck.add_tlc("Trace_RateRunner.cfg", res)
    ck.traces += len(rows)
    ck.evaluations += len(rows)
    for t in rows:
        ck.add_distinct(json.dumps(t["sched"]) + t["name"].split("-")[0] + str(len(t["ev"])))
    ck.add_sample(dict(name=rows[0]["name"], sched=rows[0]["sched"], ev=[[e["k"], e["a"], e["c"]] for e in rows[0]["ev"]]))
    w = runtraces.whys(res.output, "C18")
    groups = {}
    for k in bad:
        t = rows[k - 1]
        if t["err"]:
            raise vlib.MachineryError("c18 harness error: " + t["err"])
        for reason in sorted(w.get(k, {"C18:unparsed"})):
            groups.setdefault(reason, []).append(t)
    for key, lst in groups.items():
        t = lst[0]
        ck.observe(key, "%s in %d trace(s) of the real raterun.Runner; first (%s, schedules %s): %s" % (
            key, len(lst), t["name"], t["sched"], json.dumps([[e["k"], e["a"], e["c"]] for e in t["ev"][-14:]])), dict(rows=lst[:3]))
    steps_grain(ck, rows)
    if replay_rows is None:
        # the runner as f1's run uses it (progress lines): a run that ends while the periodic function is still writing to a
        # slow sink has stopped - and so waited for - its runner before it returns (whole-run observer, clause C18)
        runtraces.check(ck, "C18", only="progress", parts=2)
    return ck.finish()


def steps_grain(ck, rows):
    """Trace validation against RateRunner.tla's OWN actions (one action per API call / yield point)."""
    import copy
    import os
    import re
    by = {}
    for t in rows:
        if not t["err"] and 1 <= len(t["sched"]) <= 3:
            by.setdefault(len(t["sched"]), []).append(t)

    def accepts(cfg, f, n):
        res = vlib.run_tlc("Trace_RateRunnerSteps", cfg, workers=2, timeout=600, env={"TRACE_FILE": f})
        if res.violated in ("QuiescentAfterStop", "OnlyAfterStart"):
            return res, None, {}
        if not res.ok or res.timed_out:
            raise vlib.MachineryError("Trace_RateRunnerSteps did not complete: %s\n%s" % (res.summary(), res.output[-1500:]))
        mi = re.search(r"Finished computing initial states: (\d+) distinct state", res.output)
        if not mi or int(mi.group(1)) != n:
            raise vlib.MachineryError("Trace_RateRunnerSteps: %d traces but %s initial states" % (n, mi.group(1) if mi else "?"))
        acc = {int(m.group(1)) for m in re.finditer(r'<<"ACCEPTED", (\d+)>>', res.output)}
        stuck = {}
        for m in re.finditer(r'<<"STUCK", (\d+), (\d+)>>', res.output):
            stuck[int(m.group(1))] = max(stuck.get(int(m.group(1)), 0), int(m.group(2)))
        return res, acc, stuck

    with vlib.Scratch("verif-c18s-") as d:
        for k, lst in sorted(by.items()):
            f = os.path.join(d, "rr_%d.ndjson" % k)
            vlib.write_ndjson(f, lst)
            res, acc, stuck = accepts("Trace_RateRunnerSteps_%d.cfg" % k, f, len(lst))
            ck.add_tlc("Trace_RateRunnerSteps_%d.cfg" % k, res)
            ck.traces += len(lst)
            if acc is None:
                ck.observe("runner-trace-breaks-" + res.violated, "invariant %s violated while following a real runner trace" % res.violated,
                           dict(rows=lst[:2]))
                continue
            for b in range(1, len(lst) + 1):
                if b not in acc:
                    t = lst[b - 1]
                    pos = stuck.get(b, 0)
                    ck.observe("runner-trace-not-a-behaviour-of-RateRunner",
                               "the real runner did something RateRunner.tla does not allow (%s, schedules %s): no action explains event %d: %s" % (
                                   t["name"], t["sched"], pos + 1, json.dumps([[e["k"], e["a"], e["c"]] for e in t["ev"][max(0, pos - 5):pos + 2]])),
                               dict(rows=[t]))
            # binding self-test: a Stop that returns before the goroutine has ended must be rejected
            muts = []
            for t in lst:
                ks = [e["k"] for e in t["ev"]]
                if "stopret" in ks and "h.done" in ks and len(muts) < 2:
                    m = copy.deepcopy(t)
                    m["ev"] = [e for e in m["ev"] if e["k"] != "h.done"]
                    muts.append(m)
            if muts:
                f2 = os.path.join(d, "mut_%d.ndjson" % k)
                vlib.write_ndjson(f2, muts)
                r2, acc2, _ = accepts("Trace_RateRunnerSteps_%d.cfg" % k, f2, len(muts))
                if acc2:
                    raise vlib.MachineryError("Trace_RateRunnerSteps self-test: corrupted traces accepted: %s" % sorted(acc2))
                ck.notes["steps_selftest_rejected"] = ck.notes.get("steps_selftest_rejected", 0) + len(muts)


def replay(path, seed):
    return vlib.std_replay(run, path, seed)
