"""C18 — the periodic progress runner fires only while running; quiescent after Stop."""
import json
import vlib
import runtraces


def run(tier, seed, replay_rows=None):
    ck = vlib.Check("C18", tier, seed)
    ck.rule = ("a trace = (1) negative replay: the runner goroutine is parked on a due tick (hook rr.tick), Stop is called, "
               "the tick is released 150 ms later; or (2) a random sequence New/Start/Restart*/Stop|cancel on 1-3 schedules "
               "(start delays 0-70 ms or 4 s, frequencies 2-15 ms, function duration 0-3 ms) with every invocation "
               "(frequency argument, begin/end time) logged; non-trivial = every trace; distinct by schedule+event count")
    ck.assumptions = ["timers never fire early; upper timing bounds are not asserted, only lower bounds and counts",
                      "a Restart is logged before the call; calls of later schedules within 25 ms after it are attributed "
                      "to the not-yet-processed restart"]
    kw = dict(workers=8, timeout=600)
    r = vlib.run_tlc("RateRunner", "Mut_RateRunner_StopNoWait.cfg", **kw)
    if r.violated != "QuiescentAfterStop":
        raise vlib.MachineryError("Mut_RateRunner_StopNoWait should violate QuiescentAfterStop: %s" % r.summary())
    ck.add_tlc("Mut_RateRunner_StopNoWait.cfg", r)
    for cfg in ("MC_RateRunner.cfg",):
        r = vlib.run_tlc("RateRunner", cfg, **kw)
        vlib.require_tlc_ok(r, cfg)
        ck.add_tlc(cfg, r)
    binary = vlib.build_harness()
    import os
    with vlib.Scratch("verif-c18-") as d:
        if replay_rows is None:
            vlib.run_drive(binary, "c18", ["-out", d, "-tier", tier, "-seed", seed], timeout=1800)
            f = os.path.join(d, "c18.ndjson")
        else:
            f = os.path.join(d, "c18.ndjson")
            vlib.write_ndjson(f, replay_rows)
        rows = vlib.read_ndjson(f)
        res, bad = vlib.validate_rows("Trace_RateRunner", "Trace_RateRunner.cfg", f, var="tr", workers=4)
    ck.add_tlc("Trace_RateRunner.cfg", res)
    ck.traces += len(rows)
    ck.evaluations += len(rows)
    for t in rows:
        ck.add_distinct(json.dumps(t["sched"]) + t["name"].split("-")[0] + str(len(t["ev"])))
    ck.add_sample(dict(name=rows[0]["name"], sched=rows[0]["sched"], ev=[[e["k"], e["a"], e["c"]] for e in rows[0]["ev"]]))
    w = runtraces.whys(res.output, "C18")
    groups = {}
    for k in bad:
        t = rows[k - 1]
        if t["err"]:
            raise vlib.MachineryError("c18 harness error: " + t["err"])
        for reason in sorted(w.get(k, {"C18:unparsed"})):
            groups.setdefault(reason, []).append(t)
    for key, lst in groups.items():
        t = lst[0]
        ck.observe(key, "%s in %d trace(s) of the real raterun.Runner; first (%s, schedules %s): %s" % (
            key, len(lst), t["name"], t["sched"], json.dumps([[e["k"], e["a"], e["c"]] for e in t["ev"][-14:]])), dict(rows=lst[:3]))
    return ck.finish()


def replay(path, seed):
    return vlib.std_replay(run, path, seed)
