"""C13 — jitter varies each tick but preserves the long-run total."""
import copy
import json
import vlib


def key_of(t):
    if t.get("panicked"):
        return "panic"
    return "jitter"


def selftest(rows):
    muts = []
    for t in rows:
        if len(t["ev"]) > 20 and 0 < abs(t["J"]) < 9000 and len(muts) < 4 and t["shape"] == "constant" and t["ev"][0][0] >= 10:
            m = copy.deepcopy(t)
            r = m["ev"][10][0]
            m["ev"][10][1] = 3 * r + 50            # a value far outside jitter percent of the request
            muts.append(m)
    for t in rows:
        if t["J"] == 0 and len(muts) < 6 and t["ev"]:
            m = copy.deepcopy(t)
            m["ev"][0][1] += 1                     # zero jitter is not the identity
            muts.append(m)
    return muts


def run(tier, seed, replay_rows=None):
    ck = vlib.Check("C13", tier, seed)
    ck.rule = ("a trace = (jitter, rate shape, max rate) driven through the real api.WithJitter with its real random "
               "source; every (rate, output) pair is one spec step; non-trivial = jitter != 0; distinct by content hash")
    ck.assumptions = ["one part in 10^4 of float slack on the rounding boundary",
                      "balance bound is the closed-form fixed point (j*rmax+1/2)/(1-j), checked for |j| < 100 %"]
    # unbounded: for EVERY jitter in [0, 100 %) (0.01 % steps), every rate in Nat and any number of ticks the
    # carry is exact and the balance stays within the closed-form bound (Apalache, inductive invariant)
    vlib.inductive(ck, "JitterInd", mutant="JitterIndMut")
    vlib.flow(ck, mcs=[("Jitter", "MC_Jitter.cfg", dict(workers=8, timeout=300))],
              sub="c13", trace_module="Trace_Jitter", trace_cfg="Trace_Jitter.cfg", trace_file="c13.ndjson",
              key_of=key_of, nontrivial=lambda t: t["J"] != 0,
              distinct_key=lambda t: json.dumps([t["J"], t["shape"], t["ev"][:50]]),
              selftest=selftest, replay_rows=replay_rows, workers=4)
    ck.evaluations = sum(1 for _ in range(ck.traces))
    return ck.finish()


def replay(path, seed):
    return vlib.std_replay(run, path, seed)
