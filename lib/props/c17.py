"""C17 — iteration durations are measured around the body and aggregated exactly."""
import copy
import json
import os
import vlib


def selftest(rows):
    muts = []
    for t in rows:
        snaps = [j for j, e in enumerate(t["ev"]) if e[0] == "s" and e[1][0] > 0]
        if snaps and len(muts) < 4:
            m = copy.deepcopy(t)
            m["ev"][snaps[-1]][1][2] += 1          # lifetime minimum off by one
            muts.append(m)
    for t in rows:
        snaps = [j for j, e in enumerate(t["ev"]) if e[0] in "st" and e[1][4] > 0]
        if snaps and len(muts) < 7:
            m = copy.deepcopy(t)
            m["ev"][snaps[0]][1][4] -= 1           # a failed iteration not counted
            muts.append(m)
    return muts


def run(tier, seed, replay_rows=None):
    ck = vlib.Check("C17", tier, seed)
    ck.rule = ("(a) an op sequence (record success/fail with a positive duration, dropped, snapshot, total) applied to the "
               "real progress.Stats with every snapshot logged: all sequences of <= 4 (quick) / 5 (thorough) ops over an "
               "8-letter alphabet plus random long ones; non-trivial = contains a snapshot after a record; (b) timed "
               "single-worker runs (body sleeps; sleeping cleanup; queueing burst) for every way a body can end")
    ck.assumptions = ["durations positive (0 is the code's 'unset' sentinel for min)",
                      "upper timing bounds only against deliberate outside time >= 200 ms with 100 ms slack; harness overshoot = inconclusive"]
    binary = None
    if replay_rows is not None and replay_rows and "case" in replay_rows[0]:
        # replay of a measurement finding: just re-measure
        replay_rows = None
    # unbounded: min * count <= sum <= max * count (so min <= mean <= max) for ANY sequence of durations, with the
    # 0 sentinel (inductive invariant, Apalache); a mutant comparing the minimum with the maximum is refuted
    vlib.inductive(ck, "AggregateInd", mutant="AggregateIndMut")
    rows = vlib.flow(ck, mcs=[("ProgressSeq", "MC_ProgressSeq.cfg", dict(workers=8, timeout=600))],
                     sub="c17", trace_module="Trace_ProgressSeq", trace_cfg="Trace_ProgressSeq.cfg",
                     trace_file="c17seq.ndjson", key_of=lambda t: "aggregation",
                     nontrivial=lambda t: any(e[0] == "s" for e in t["ev"]) and any(e[0] == "r" for e in t["ev"]),
                     distinct_key=lambda t: json.dumps(t["ev"])[:3000], selftest=selftest, replay_rows=replay_rows,
                     workers=4)
    if replay_rows is None:
        # (b) measurement clause: the drive call above also wrote c17measure.ndjson in its scratch dir, which is gone;
        # run the (cheap) measurement part again on its own
        binary = vlib.build_harness()
        for attempt in range(2):
            with vlib.Scratch("verif-c17m-") as d:
                vlib.run_drive(binary, "c17", ["-out", d, "-tier", "quick", "-seed", ck.seed, "-x", "measure_only=1"])
                mf = os.path.join(d, "c17measure.ndjson")
                mrows = vlib.read_ndjson(mf)
                res, bad = vlib.validate_rows("Measure", "Measure.cfg", mf, var="l", workers=2)
            if not bad or attempt == 1:
                break
        ck.add_tlc("Measure.cfg", res)
        ck.traces += len(mrows)
        ck.evaluations += len(mrows)
        ck.inconclusive += sum(1 for r in mrows if r.get("overshoot"))
        for r in mrows[:2]:
            ck.add_sample(r)
        for r in mrows:
            ck.add_distinct("measure:" + r["case"])
        groups = {}
        for i in bad:
            r = mrows[i - 1]
            groups.setdefault("measurement:" + r["case"].split("/")[0], []).append(r)
        for k, lst in groups.items():
            ck.observe(k, "%s: recorded durations do not bracket the body's own clock in %d runs (seen twice), first: %s" % (
                k, len(lst), json.dumps(lst[0])), dict(rows=lst))
    if replay_rows is None:
        # lifetime figures at quiescence under concurrent use: every interleaving of recorders with snapshots/totals
        # (harness `c01`), all durations 1 ns, so the lifetime mean/min/max must come out as exactly 1
        import runtraces  # noqa: F401
        binary = vlib.build_harness()
        with vlib.Scratch("verif-c17c-") as d:
            vlib.run_drive(binary, "c01", ["-out", d, "-tier", "quick", "-seed", ck.seed], timeout=1800)
            f = os.path.join(d, "c01.ndjson")
            rows2 = vlib.read_ndjson(f)
            res2, bad2 = vlib.validate_rows("Trace_ProgressStats", "Trace_ProgressStats.cfg", f, var="tr", workers=4)
        ck.add_tlc("Trace_ProgressStats.cfg", res2)
        ck.traces += len(rows2)
        for k in bad2[:1]:
            t = rows2[k - 1]
            if t["err"]:
                raise vlib.MachineryError("c01 scheduler error: " + t["err"])
            ck.observe("lifetime-figures-wrong-after-concurrent-snapshots",
                       "after schedule %s the lifetime figures do not cover exactly the recorded durations (%d schedules): %s" % (
                           t["sched"], len(bad2), json.dumps(t["ev"][-3:])), dict(rows=[rows2[j - 1] for j in bad2[:5]]))
    if replay_rows is None:
        # the windows inside Add / CollectLifetime that no yield point reaches: free-running recorder vs snapshots,
        # lifetime figures checked at quiescence after every round
        vlib.flow(ck, mcs=[], sub="c17stress", trace_module="Trace_Quiescent", trace_cfg="Trace_Quiescent.cfg",
                  trace_file="c17stress.ndjson", var="l", key_of=lambda r: "lifetime-figures-do-not-cover-everything-recorded@stress",
                  describe=lambda r: json.dumps(r)[:500], workers=2)
    return ck.finish()


def replay(path, seed):
    if json.load(open(path))["replay"].get("sub") != "c17":
        return run("quick", seed)          # stress / measurement observations are re-made on the current tree
    return vlib.std_replay(run, path, seed)
