"""C12 — distributing a rate over sub-ticks neither creates nor loses iterations."""
import copy
import json
import vlib


def key_of(t):
    if t.get("panicked"):
        return "panic"
    return "%s-distribution" % t["dist"]


def selftest(rows):
    muts = []
    for t in rows:
        if t["ev"] and len(muts) < 5 and t["dist"] != "none" and t["in_ms"] > 100:
            m = copy.deepcopy(t)
            m["ev"][len(m["ev"]) // 2]["out"] += 1      # one iteration created
            muts.append(m)
    for t in rows:
        if len(t["ev"]) > 3 and len(muts) < 8 and t["in_ms"] > 200 and t["dist"] != "none":
            m = copy.deepcopy(t)
            m["ev"][1]["evals"] += 1                     # rate re-evaluated mid-cycle
            muts.append(m)
    return muts


def run(tier, seed, replay_rows=None):
    ck = vlib.Check("C12", tier, seed)
    ck.rule = ("a trace = one (distribution, interval, rate sequence, draw sequence) driven through the real "
               "api.NewDistribution for 3 cycles; non-trivial = distributed (N >= 2) with a non-zero rate; distinct by "
               "(dist, interval, rates)")
    ck.assumptions = ["scripted rate/random sources; run-length-encoded logs for long cycles",
                      "exactness claimed for N < 10^7 sub-ticks (MC_Distribution_Impl shows the bound N < Q)"]
    kw = dict(workers=8, timeout=300)
    # unbounded: the regular distributor's fixed-point accumulator conserves the cycle's rate for EVERY cycle length
    # n < Q and every rate in Nat (inductive invariant, Apalache); with n up to 3Q the induction must fail
    vlib.inductive(ck, "DistributionInd", mutant="DistributionIndMut")
    vlib.flow(ck,
              mcs=[("Distribution", "MC_Distribution.cfg", kw),
                   ("Distribution", "MC_Distribution_Bresenham.cfg", kw),
                   ("Distribution", "MC_Distribution_Impl.cfg", kw)],
              sub="c12", trace_module="Trace_Distribution", trace_cfg="Trace_Distribution.cfg",
              trace_file="c12.ndjson", key_of=key_of,
              nontrivial=lambda t: t["in_ms"] >= 200 and t["dist"] != "none" and any(t["rates"]),
              distinct_key=lambda t: json.dumps([t["dist"], t["in_ms"], t["frac"], t["rates"]]),
              selftest=selftest, replay_rows=replay_rows)
    return ck.finish()


def replay(path, seed):
    return vlib.std_replay(run, path, seed)
