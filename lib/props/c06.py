"""C06 — lifecycle: setup once, iterations, LIFO cleanups exactly once, teardown last."""
import vlib
import runtraces
import lifecycle


def normalize(entries):
    # everything the lifecycle statement talks about: setup, bodies (as anchors), cleanups, and the
    # run errors; the per-iteration outcome counts are C07's concern
    return [dict(e, i=0, c=0) if e["t"] == "R" else e for e in entries if e["t"] in ("E", "R")]


def concern(exp, obs):
    ee = [e for e in exp if e["t"] == "E"]
    oo = [e for e in obs if e["t"] == "E"]
    if ee != oo:
        kinds = sorted({e["f"] for e in ee if e not in oo} | {e["f"] for e in oo if e not in ee}) or ["order"]
        return "event-log-differs:" + ",".join(kinds)
    return "run-errors-differ"


def run(tier, seed, replay_rows=None):
    ck = vlib.Check("C06", tier, seed)
    ck.rule = ("a behaviour = a program (steps of every setup/body/cleanup function) chosen by TLC together with the "
               "event log Lifecycle requires, replayed on the real Run.Do (users and constant triggers, 1 worker); "
               "non-trivial = every behaviour (each has a distinct program); distinct by program+log")
    ck.assumptions = ["cleanups registered from inside cleanups and goroutines outliving their body are not generated",
                      "one worker, so the global order is deterministic; multi-worker ordering is covered by run traces (C04/C05)"]
    q = tier == "quick"
    cfgs = [("MC_Lifecycle_1x1.cfg", "Gen_Lifecycle_1x1.cfg", 1, 1, None, 1),
            # three iterations on the same worker: simulated in the quick tier, exhaustive (311k states) in the thorough tier
            ((None, "Gen_Lifecycle_1x3.cfg", 1, 3, 2500, 1) if q else ("MC_Lifecycle_1x3.cfg", "Gen_Lifecycle_1x3.cfg", 1, 3, None, 1))]
    # (behaviours of COMBINED scenarios are C20's: a change that only affects how components are invoked must not be
    # reported here)
    lifecycle.run_property(ck, cfgs, normalize, concern, replay_rows=replay_rows)
    ck.exhaustive = not q
    if replay_rows is None:
        # run-level clauses of this property on whole-run traces (F1Run observer)
        runtraces.check(ck, "C06")
    return ck.finish()


def replay(path, seed):
    return vlib.std_replay(run, path, seed)
