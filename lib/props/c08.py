"""C08 — pass/fail verdict and exit status follow the documented tolerances.
A: TLC exhaustive on Verdict (design theorems on the full small table).
C: observations of the real Result.Failed() (full small table + random large counts near the
   percentage boundary) and of the real CLI (F1.ExecuteWithArgs) validated row by row by TLC
   against Verdict!Failed."""
import json
import os
import vlib


def classify(r):
    """Key identifying WHICH failing input class an observation belongs to (for known findings)."""
    tot = r["s"] + r["f"] + r["d"]
    if r.get("panicked"):
        if tot == 0 and r["maxFR"] > 0:
            return "zero-iterations-rate-div0"
        return "panic:" + r.get("panic_msg", "")[:60]
    return "verdict-mismatch"


def run(tier, seed, replay_rows=None):
    ck = vlib.Check("C08", tier, seed)
    ck.rule = ("rows = (s,f,d,#errors,ignoreDropped,maxFailures,maxFailuresRate) evaluated on the real "
               "run.Result / CLI; distinct = distinct rows; non-trivial = rows where at least one clause of "
               "the rule is active (errors, drops, failures or a tolerance)")
    ck.assumptions = ["TLC integers are exact; counts kept < 2^31/100",
                      "CLI rows: scenario fails exactly the planned iterations; concurrency and interval make drops impossible"]
    a = vlib.run_tlc("Verdict", "MC_Verdict.cfg", workers=8, timeout=300)
    vlib.require_tlc_ok(a, "MC_Verdict")
    ck.add_tlc("MC_Verdict", a)
    ck.exhaustive = True
    # unbounded: the ten design theorems for ALL counts in Nat, any max-failures, every rate 0..100 (Apalache/Z3);
    # the mutant (>= instead of > in the share comparison) must be refuted
    vlib.apalache_theorems(ck, "VerdictInd", mutant="VerdictIndMut")
    binary = vlib.build_harness()
    with vlib.Scratch("verif-c08-") as d:
        if replay_rows is None:
            rc, out = vlib.run_drive(binary, "c08", ["-out", d, "-tier", tier, "-seed", seed])
            vlib.log(out.strip().splitlines()[-1] if out.strip() else "")
            trace = os.path.join(d, "c08.ndjson")
        else:
            trace = os.path.join(d, "c08.ndjson")
            vlib.write_ndjson(trace, replay_rows)
        rows = vlib.read_ndjson(trace)
        res, bad = vlib.validate_rows("Trace_Verdict", "Trace_Verdict.cfg", trace)
        ck.add_tlc("Trace_Verdict", res)
        ck.traces = len(rows)
        ck.evaluations = len(rows)
        for r in rows:
            if r["nerr"] or r["d"] or r["f"] or r["maxF"] or r["maxFR"]:
                ck.add_distinct(json.dumps([r[k] for k in ("kind", "s", "f", "d", "nerr", "ign", "maxF", "maxFR")]))
        for r in rows[:2] + [x for x in rows if x["kind"] == "cli"][:2]:
            ck.add_sample(r)
        seen = set()
        for i in bad:
            r = rows[i - 1]
            key = classify(r)
            if key in seen:
                continue
            seen.add(key)
            n = sum(1 for j in bad if classify(rows[j - 1]) == key)
            ck.observe(key, "real verdict differs from Verdict!Failed (%s; %d rows), first: %s" % (key, n, json.dumps(r)),
                       dict(rows=[rows[j - 1] for j in bad if classify(rows[j - 1]) == key][:20]))
    return ck.finish()


def replay(path, seed):
    rp = json.load(open(path))
    rows = rp["replay"]["rows"]
    import subprocess
    binary = vlib.build_harness()
    # re-observe the same inputs on the current tree
    with vlib.Scratch("verif-c08r-") as d:
        inp = os.path.join(d, "in.ndjson")
        vlib.write_ndjson(inp, rows)
        vlib.run_drive(binary, "c08", ["-out", d, "-in", inp])
        return run("quick", seed, replay_rows=vlib.read_ndjson(os.path.join(d, "c08.ndjson")))
