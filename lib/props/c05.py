"""C05 — a run always terminates, stops triggering on time, and leaves nothing running."""
import vlib
import runtraces


def run(tier, seed, replay_rows=None):
    ck = vlib.Check("C05", tier, seed)
    ck.rule = ("a trace = one real Run.Do (constant/staged/ramp/gaussian/users/file x endings: max-duration, trigger "
               "duration, limit, cancel at a random instant incl. before the first tick, setup failure, bodies blocking past "
               "the completion timeout) observed through the scenario function, hooks, progress log and goroutine dump; "
               "non-trivial = every run; distinct by case and event count")
    ck.assumptions = ["wall-clock clauses one-sided with 1 s slack (3 s on the return bound)",
                      "a leak is a goroutine still executing f1 code 120 ms after Do returned"]
    # MECHANISM_MCS: exhaustive model checking of the mechanism specifications behind the run-level clauses
    for mod, cfg in (("RunPhases", "MC_RunPhases.cfg"), ("RunLifecycle", "MC_RunLifecycle.cfg"), ("RateRunner", "MC_RateRunner.cfg"), ("MC_ContinuousPool", "MC_ContinuousPool.cfg"), ("MC_ContinuousPool", "MC_ContinuousPool_precancel.cfg"), ("TriggerPool", "MC_TriggerPool_quick.cfg")):
        r = vlib.run_tlc(mod, cfg, workers=16, timeout=1800)
        vlib.require_tlc_ok(r, cfg)
        ck.add_tlc(cfg, r)
    for mod, cfg, inv in (("RunLifecycle", "Mut_RunLifecycle_StopNoWait.cfg", "NeverWedged"), ("RateRunner", "Mut_RateRunner_StopNoWait.cfg", "QuiescentAfterStop"),
                          ("MC_ContinuousPool", "Mut_ContinuousPool_precancel.cfg", "NothingOnADeadContext")):
        r = vlib.run_tlc(mod, cfg, workers=8, timeout=600)
        if r.violated != inv:
            raise vlib.MachineryError("%s should violate %s on the spec: %s" % (cfg, inv, r.summary()))
        ck.add_tlc(cfg, r)
    runtraces.check(ck, "C05", rows=replay_rows)
    if replay_rows is None:
        # the Result shared by the progress reporter and the run goroutine, both running freely (nested read locks)
        import json as _json
        vlib.flow(ck, mcs=[], sub="c05views", trace_module="Trace_ViewsLive", trace_cfg="Trace_ViewsLive.cfg",
                  trace_file="c05views.ndjson", var="l", key_of=lambda r: "C05:result-views-deadlock-the-run@stress",
                  describe=lambda r: _json.dumps(r)[:400], workers=1)
    if replay_rows is None:
        # users mode at yield-point grain: cooperative schedules of the real ContinuousPool (limit, cancel, pool started
        # on a context that is already done; stopper / workers / bodies starved in turn)
        runtraces.extra(ck, "C05", "cpool", "cpool.ndjson")
    return ck.finish()


def replay(path, seed):
    return run("quick", seed)
