"""C05 — a run always terminates, stops triggering on time, and leaves nothing running."""
import vlib
import runtraces


def run(tier, seed, replay_rows=None):
    ck = vlib.Check("C05", tier, seed)
    ck.rule = ("a trace = one real Run.Do (constant/staged/ramp/gaussian/users/file x endings: max-duration, trigger "
               "duration, limit, cancel at a random instant incl. before the first tick, setup failure, bodies blocking past "
               "the completion timeout) observed through the scenario function, hooks, progress log and goroutine dump; "
               "non-trivial = every run; distinct by case and event count")
    ck.assumptions = ["wall-clock clauses one-sided with 1 s slack (3 s on the return bound)",
                      "a leak is a goroutine still executing f1 code 120 ms after Do returned"]
    runtraces.check(ck, "C05", rows=replay_rows)
    return ck.finish()


def replay(path, seed):
    return run("quick", seed)
