"""C14 — every user input is either rejected with an error or yields a runnable trigger."""
import json
import vlib


def key_of(r):
    if r["kind"] == "ramp":
        return "ramp-panics" if r["panicked"] else "ramp-does-not-mean-what-its-two-rates-spell"
    if r["kind"] == "rate":
        if r["panicked"]:
            return "rate-string-panics"
        if r["accepted"] and r["ms"] <= 0 and r["ns"] <= 0:
            return "rate-string-accepted-with-non-positive-interval"
        return "rate-string-does-not-mean-what-it-spells"
    if r["panicked"]:
        msg = r.get("msg", "")
        for pat, k in (("NewTicker", "non-positive-tick-interval-crashes"), ("nil pointer", "nil-dereference-crashes"),
                       ("slice bounds", "rate-string-panics"), ("makeslice", "negative-concurrency-crashes")):
            if pat in msg:
                return r["front"] + ":" + k
        return r["front"] + ":crash"
    if r["accepted"] and r["workers"] < 1:
        return r["front"] + ":accepted-without-workers"
    if r["accepted"] and not r["interval_ok"]:
        return r["front"] + ":accepted-with-non-positive-interval"
    if r["accepted"] and not r.get("rate_ok", True):
        return r["front"] + ":accepted-with-unusable-rate-function"
    if not r["accepted"] and r["setup_ran"]:
        return r["front"] + ":rejected-after-setup-ran"
    return r["front"] + ":accepted-but-did-not-run"


def run(tier, seed, replay_rows=None):
    ck = vlib.Check("C14", tier, seed)
    ck.rule = ("an observation = one input through a real front end: every rate string up to length 4 (quick) / 5 (thorough) "
               "over {0,1,5,/,.,s,m,h,-,space} plus targeted spellings -> ParseRate; stage strings x frequencies, constant/ramp/"
               "gaussian constructor arguments -> Calculate*Rate and a 60 ms real run; CLI flag combinations and YAML config "
               "files (valid + structural mutations) -> F1.ExecuteWithArgs in a child process; non-trivial = accepted inputs and "
               "near-misses (contains '/', or is a trigger observation); distinct by input text")
    ck.assumptions = ["acceptance of ill-formed spellings is not judged, only no-panic and a positive interval",
                      "meaning checked for spellings whose interval arithmetic fits TLC's integers (field fits)"]
    vlib.flow(ck, mcs=[], sub="c14", trace_module="Trace_RateGrammar", trace_cfg="Trace_RateGrammar.cfg",
              trace_file="c14.ndjson", var="l", key_of=key_of,
              nontrivial=lambda r: r["kind"] != "rate" or "/" in r["str"],
              distinct_key=lambda r: r["kind"] + ":" + (r.get("str") if r["kind"] in ("rate", "ramp") else r["front"] + r["input"]),
              describe=lambda r: json.dumps(r)[:500], replay_rows=replay_rows, workers=8)
    ck.exhaustive = True
    return ck.finish()


def replay(path, seed):
    return vlib.std_replay(run, path, seed)
