"""C02 — requested work is conserved: every request is started once or dropped once.
A  TriggerPool (atomic grain): all interleavings of ticker, 2-3 workers, stop goroutine and canceller with a
   per-run ledger; limit on and off; liveness (termination, no stranded waiter, all workers usable); the
   configuration of the pinned limit path (LimitDrains = FALSE) must violate LimitSilent (non-vacuity).
B/C the real PoolManager/TriggerPool under the cooperative scheduler: seeded schedules whose policies starve the
   goroutine sitting in one race window while everything else runs; every schedule is an exact-order trace
   validated by TLC against F1Run's C02 clauses. Whole Run.Do traces add the free-running view."""
import json
import vlib
import runtraces


def run(tier, seed, replay_rows=None):
    ck = vlib.Check("C02", tier, seed)
    ck.rule = ("a trace = one cooperative schedule of the real TriggerPool (workers 1-3, 1-4 ticks of size 0-4, limit 0-4, "
               "cancel) under a window-starving policy, or one whole Run.Do; non-trivial = a tick supersedes pending work, "
               "or the limit/stop path runs with work pending; distinct by configuration+schedule")
    ck.assumptions = ["cooperative schedules interleave at yield-point grain; finer interleavings are explored by TLC on the spec",
                      "a tick that passed its context check but publishes after the stop flag (LateTick) is only required "
                      "not to be over-counted"]
    kw = dict(workers=16, timeout=1800)
    mcs = [("TriggerPool", "MC_TriggerPool_quick.cfg", kw), ("TriggerPool", "MC_TriggerPool_limit.cfg", kw),
           ("TriggerPool", "MC_TriggerPool_usable.cfg", kw)]
    if tier == "thorough":
        mcs.append(("TriggerPool", "MC_TriggerPool_thorough.cfg", kw))
    r = vlib.run_tlc("TriggerPool", "Mut_TriggerPool_limitdrop.cfg", **kw)
    if r.violated != "LimitSilent":
        raise vlib.MachineryError("Mut_TriggerPool_limitdrop should violate LimitSilent on the spec: %s" % r.summary())
    ck.add_tlc("Mut_TriggerPool_limitdrop.cfg", r)

    def nontrivial(t):
        ks = [e["k"] for e in t["ev"]]
        return "dropev" in ks or "limit" in ks

    rows = vlib.flow(ck, mcs=mcs, sub="c02", trace_module="F1Run", trace_cfg="Trace_F1Run_C02.cfg", trace_file="c02.ndjson",
                     key_of=lambda t: "scheduler-error" if t["err"] else "pool-schedule-rejected",
                     nontrivial=nontrivial, distinct_key=lambda t: t["cfg"]["args"],
                     describe=lambda t: json.dumps(dict(args=t["cfg"]["args"], err=t["err"],
                                                        ev=[[e["k"], e["a"], e["b"]] for e in t["ev"]]))[:1500],
                     replay_rows=replay_rows, workers=8)
    spec_grain(ck, rows)
    if replay_rows is None:
        runtraces.extra(ck, "C02", "c02stress", "c02stress.ndjson")
        runtraces.check(ck, "C02")
    return ck.finish()


def spec_grain(ck, rows):
    """Trace validation against TriggerPool.tla's OWN actions: every arrival of a goroutine at a yield point must be
    reachable by steps of that process in the specification; the final ledger must equal the real statistics."""
    import copy
    import os
    by = {}
    for r in rows:
        if not r.get("err") and r.get("arr"):
            by.setdefault(r["maxiter"], []).append(r)
    with vlib.Scratch("verif-c02tp-") as d:
        for k, lst in sorted(by.items()):
            if k not in (0, 1, 2, 3, 4):
                continue
            f = os.path.join(d, "tp_%d.ndjson" % k)
            vlib.write_ndjson(f, [dict(workers=r["workers"], maxiter=r["maxiter"], arr=r["arr"]) for r in lst])
            res, bad = vlib.validate_rows("Trace_TriggerPool", "Trace_TriggerPool_%d.cfg" % k, f, var="tr", workers=4)
            ck.add_tlc("Trace_TriggerPool_%d.cfg" % k, res)
            ck.traces += len(lst)
            for b in bad:
                t = lst[b - 1]
                pos = vlib.last_index(res.output, b, var_tr="tr")
                ck.observe("pool-schedule-not-a-behaviour-of-TriggerPool",
                           "the real pool did something TriggerPool.tla does not allow: %s; rejected at arrival %s: %s" % (
                               t["cfg"]["args"][:300], pos, json.dumps(t["arr"][max(0, (pos or 0) - 6):(pos or 0) + 2])),
                           dict(rows=[t]))
            # binding self-test: a ledger that is off by one must be rejected
            muts = []
            for t in lst[:3]:
                m = dict(workers=t["workers"], maxiter=t["maxiter"], arr=copy.deepcopy(t["arr"]))
                m["arr"][-1][3] += 1
                muts.append(m)
            f2 = os.path.join(d, "mut_%d.ndjson" % k)
            vlib.write_ndjson(f2, muts)
            r2, bad2 = vlib.validate_rows("Trace_TriggerPool", "Trace_TriggerPool_%d.cfg" % k, f2, var="tr", workers=2)
            if len(bad2) != len(muts):
                raise vlib.MachineryError("Trace_TriggerPool self-test: %d corrupted traces, %d rejected" % (len(muts), len(bad2)))
            ck.notes["trace_triggerpool_selftest_rejected"] = ck.notes.get("trace_triggerpool_selftest_rejected", 0) + len(bad2)


def replay(path, seed):
    return vlib.std_replay(run, path, seed)
