"""C02 — requested work is conserved: every request is started once or dropped once.
A  TriggerPool (atomic grain): all interleavings of ticker, 2-3 workers, stop goroutine and canceller with a
   per-run ledger; limit on and off; liveness (termination, no stranded waiter, all workers usable); the
   configuration of the pinned limit path (LimitDrains = FALSE) must violate LimitSilent (non-vacuity).
B/C the real PoolManager/TriggerPool under the cooperative scheduler: seeded schedules whose policies starve the
   goroutine sitting in one race window while everything else runs; every schedule is an exact-order trace
   validated by TLC against F1Run's C02 clauses. Whole Run.Do traces add the free-running view."""
import json
import vlib
import runtraces


def run(tier, seed, replay_rows=None):
    ck = vlib.Check("C02", tier, seed)
    ck.rule = ("a trace = one cooperative schedule of the real TriggerPool (workers 1-3, 1-4 ticks of size 0-4, limit 0-4, "
               "cancel) under a window-starving policy, or one whole Run.Do; non-trivial = a tick supersedes pending work, "
               "or the limit/stop path runs with work pending; distinct by configuration+schedule")
    ck.assumptions = ["cooperative schedules interleave at yield-point grain; finer interleavings are explored by TLC on the spec",
                      "a tick that passed its context check but publishes after the stop flag (LateTick) is only required "
                      "not to be over-counted"]
    kw = dict(workers=16, timeout=1800)
    mcs = [("TriggerPool", "MC_TriggerPool_quick.cfg", kw), ("TriggerPool", "MC_TriggerPool_limit.cfg", kw),
           ("TriggerPool", "MC_TriggerPool_usable.cfg", kw)]
    if tier == "thorough":
        mcs.append(("TriggerPool", "MC_TriggerPool_thorough.cfg", kw))
    r = vlib.run_tlc("TriggerPool", "Mut_TriggerPool_limitdrop.cfg", **kw)
    if r.violated != "LimitSilent":
        raise vlib.MachineryError("Mut_TriggerPool_limitdrop should violate LimitSilent on the spec: %s" % r.summary())
    ck.add_tlc("Mut_TriggerPool_limitdrop.cfg", r)

    def nontrivial(t):
        ks = [e["k"] for e in t["ev"]]
        return "dropev" in ks or "limit" in ks

    rows = vlib.flow(ck, mcs=mcs, sub="c02", trace_module="F1Run", trace_cfg="Trace_F1Run_C02.cfg", trace_file="c02.ndjson",
                     key_of=lambda t: "scheduler-error" if t["err"] else "pool-schedule-rejected",
                     nontrivial=nontrivial, distinct_key=lambda t: t["cfg"]["args"],
                     describe=lambda t: json.dumps(dict(args=t["cfg"]["args"], err=t["err"],
                                                        ev=[[e["k"], e["a"], e["b"]] for e in t["ev"]]))[:1500],
                     replay_rows=replay_rows, workers=8)
    if replay_rows is None:
        runtraces.extra(ck, "C02", "c02stress", "c02stress.ndjson")
        runtraces.check(ck, "C02")
    return ck.finish()


def replay(path, seed):
    return vlib.std_replay(run, path, seed)
