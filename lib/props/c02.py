"""C02 — requested work is conserved: every request is started once or dropped once.
A  TriggerPool (atomic grain): all interleavings of ticker, 2-3 workers, stop goroutine and canceller with a
   per-run ledger; limit on and off; liveness (termination, no stranded waiter, all workers usable); the
   configuration of the pinned limit path (LimitDrains = FALSE) must violate LimitSilent (non-vacuity).
B/C the real PoolManager/TriggerPool under the cooperative scheduler: seeded schedules whose policies starve the
   goroutine sitting in one race window while everything else runs; every schedule is an exact-order trace
   validated by TLC against F1Run's C02 clauses. Whole Run.Do traces add the free-running view."""
import json
import vlib
import runtraces


def run(tier, seed, replay_rows=None):
    ck = vlib.Check("C02", tier, seed)
    ck.rule = ("a trace = one cooperative schedule of the real TriggerPool (workers 1-3, 1-4 ticks of size 0-4, limit 0-4, "
               "cancel) under a window-starving policy, or one whole Run.Do; non-trivial = a tick supersedes pending work, "
               "or the limit/stop path runs with work pending; distinct by configuration+schedule")
    ck.assumptions = ["cooperative schedules interleave at yield-point grain; finer interleavings are explored by TLC on the spec",
                      "a tick that passed its context check but publishes after the stop flag (LateTick) is only required "
                      "not to be over-counted"]
    # unbounded: conservation of the pending-request counter for ANY number of workers and ticks (inductive invariant,
    # Apalache); the give-back mutant (two atomic steps instead of one) must not be inductive
    vlib.inductive(ck, "JobLedgerInd", mutant="JobLedgerIndMut")
    kw = dict(workers=16, timeout=1800)
    mcs = [("TriggerPool", "MC_TriggerPool_quick.cfg", kw), ("TriggerPool", "MC_TriggerPool_limit.cfg", kw),
           ("TriggerPool", "MC_TriggerPool_usable.cfg", kw)]
    if tier == "thorough":
        mcs.append(("TriggerPool", "MC_TriggerPool_thorough.cfg", kw))
    r = vlib.run_tlc("TriggerPool", "Mut_TriggerPool_limitdrop.cfg", **kw)
    if r.violated != "LimitSilent":
        raise vlib.MachineryError("Mut_TriggerPool_limitdrop should violate LimitSilent on the spec: %s" % r.summary())
    ck.add_tlc("Mut_TriggerPool_limitdrop.cfg", r)

    def nontrivial(t):
        ks = [e["k"] for e in t["ev"]]
        return "dropev" in ks or "limit" in ks

    rows = vlib.flow(ck, mcs=mcs, sub="c02", trace_module="F1Run", trace_cfg="Trace_F1Run_C02.cfg", trace_file="c02.ndjson",
                     key_of=lambda t: "scheduler-error" if t["err"] else "pool-schedule-rejected",
                     nontrivial=nontrivial, distinct_key=lambda t: t["cfg"]["args"],
                     describe=lambda t: json.dumps(dict(args=t["cfg"]["args"], err=t["err"],
                                                        ev=[[e["k"], e["a"], e["b"]] for e in t["ev"]]))[:1500],
                     replay_rows=replay_rows, workers=8)
    spec_grain(ck, rows)
    if replay_rows is None:
        runtraces.extra(ck, "C02", "c02stress", "c02stress.ndjson")
        runtraces.check(ck, "C02")
    return ck.finish()


def _accepts(cfg, f, n):
    """Run Trace_TriggerPool on file f (n traces). Returns (TLCResult, accepted set, furthest stuck position per trace)."""
    import re
    res = vlib.run_tlc("Trace_TriggerPool", cfg, workers=4, timeout=900, env={"TRACE_FILE": f})
    if res.violated or res.error or res.timed_out or not res.ok:
        if res.violated in ("NoOverCount", "MutexOK"):
            return res, None, {}
        raise vlib.MachineryError("Trace_TriggerPool did not complete: %s\n%s" % (res.summary(), res.output[-2000:]))
    mi = re.search(r"Finished computing initial states: (\d+) distinct state", res.output)
    if not mi or int(mi.group(1)) != n:
        raise vlib.MachineryError("Trace_TriggerPool: %d traces but %s initial states" % (n, mi.group(1) if mi else "?"))
    acc = {int(m.group(1)) for m in re.finditer(r'<<"ACCEPTED", (\d+)>>', res.output)}
    stuck = {}
    for m in re.finditer(r'<<"STUCK", (\d+), (\d+)>>', res.output):
        k, pos = int(m.group(1)), int(m.group(2))
        stuck[k] = max(stuck.get(k, 0), pos)
    return res, acc, stuck


def spec_grain(ck, rows):
    """Trace validation against TriggerPool.tla's OWN actions: every arrival of a goroutine at a yield point must be
    explained by steps of that process in the specification (acceptance is existential over the interleavings the
    log leaves open); the final ledger must equal the real statistics."""
    import copy
    import os
    by = {}
    for r in rows:
        if not r.get("err") and r.get("arr"):
            by.setdefault(r["maxiter"], []).append(r)
    with vlib.Scratch("verif-c02tp-") as d:
        for k, lst in sorted(by.items()):
            if k not in (0, 1, 2, 3, 4):
                continue
            f = os.path.join(d, "tp_%d.ndjson" % k)
            vlib.write_ndjson(f, [dict(workers=r["workers"], maxiter=r["maxiter"], arr=r["arr"]) for r in lst])
            res, acc, stuck = _accepts("Trace_TriggerPool_%d.cfg" % k, f, len(lst))
            ck.add_tlc("Trace_TriggerPool_%d.cfg" % k, res)
            ck.traces += len(lst)
            if acc is None:
                ck.observe("pool-schedule-breaks-a-TriggerPool-invariant", "invariant %s violated while following a real schedule" % res.violated,
                           dict(rows=lst[:3]))
                continue
            for b in range(1, len(lst) + 1):
                if b in acc:
                    continue
                t = lst[b - 1]
                pos = stuck.get(b, 0)
                # The schedule is not a behaviour of the mechanism specification. That is a deviation of the code from the
                # MODEL, not by itself a violation of the property: the property-level verdict on the same schedule is
                # F1Run's (conservation ledger, limit silence). It is reported as a diagnostic and kept in the evidence.
                msg = "arrival %s of schedule [%s]: %s" % (pos + 1, t["cfg"]["args"][:160], json.dumps(t["arr"][max(0, pos - 4):pos + 2]))
                drift = ck.notes.setdefault("conformance_drift_TriggerPool", [])
                if len(drift) < 5:
                    drift.append(msg)
                    vlib.log("CONFORMANCE-DRIFT property=C02 the real pool took a step TriggerPool.tla does not have: " + msg[:300])
            # binding self-test: a ledger that is off by one must be rejected
            muts = []
            # (taken from schedules the specification followed: a corrupted ledger must then be refused)
            for t in [lst[b - 1] for b in sorted(acc)][:3]:
                m = dict(workers=t["workers"], maxiter=t["maxiter"], arr=copy.deepcopy(t["arr"]))
                m["arr"][-1][3] += 1
                muts.append(m)
            f2 = os.path.join(d, "mut_%d.ndjson" % k)
            vlib.write_ndjson(f2, muts)
            if not muts:
                continue
            r2, acc2, _ = _accepts("Trace_TriggerPool_%d.cfg" % k, f2, len(muts))
            if acc2:
                raise vlib.MachineryError("Trace_TriggerPool self-test: corrupted traces %s were accepted" % sorted(acc2))
            ck.notes["trace_triggerpool_selftest_rejected"] = ck.notes.get("trace_triggerpool_selftest_rejected", 0) + len(muts)


def replay(path, seed):
    return vlib.std_replay(run, path, seed)
