"""C07 — failures and panics are contained in their iteration and classified correctly."""
import vlib
import runtraces
import lifecycle


def normalize(entries):
    # which bodies ran (worker survives, later iterations run) and how iterations were counted
    return [dict(e, p=[]) if e["t"] == "R" else e for e in entries
            if e["t"] == "R" or (e["t"] == "E" and e["f"] == "b")]


def concern(exp, obs):
    er = [e for e in exp if e["t"] == "R"]
    orr = [e for e in obs if e["t"] == "R"]
    if er != orr:
        return "outcome-counts-differ"
    return "iterations-run-differ"


def run(tier, seed, replay_rows=None):
    ck = vlib.Check("C07", tier, seed)
    ck.rule = ("a behaviour = TLC-chosen program over {reg, fail} steps and endings {ret, failnow, panic} for 1-3 "
               "iterations on the same worker; the harness realises fail/failnow/panic by rotating over Fail, Error, "
               "Errorf, failed assert | FailNow, Fatal, Fatalf, failed require | panic(error|string|struct|int), nil-map "
               "write, index out of range, nil func call, divide by zero; distinct by program")
    ck.assumptions = ["process death is observed by the harness being killed; the behaviour that was executing is the replay"]
    q = tier == "quick"
    cfgs = [("MC_Lifecycle_1x1.cfg", "Gen_Lifecycle_1x1.cfg", 1, 1, None, 1),
            # three iterations on the same worker: simulated in the quick tier, exhaustive (311k states) in the thorough tier
            ((None, "Gen_Lifecycle_1x3.cfg", 1, 3, 2500, 1) if q else ("MC_Lifecycle_1x3.cfg", "Gen_Lifecycle_1x3.cfg", 1, 3, None, 1))]
    # (behaviours of COMBINED scenarios are C20's: a change that only affects how components are invoked must not be
    # reported here)
    lifecycle.run_property(ck, cfgs, normalize, concern, replay_rows=replay_rows)
    ck.exhaustive = not q
    if replay_rows is None:
        # run-level clauses of this property on whole-run traces (F1Run observer)
        runtraces.check(ck, "C07")
    return ck.finish()


def replay(path, seed):
    return vlib.std_replay(run, path, seed)
