"""C15 — config-file plans keep exactly the unfinished stages, in order, defaults applied."""
import copy
import json
import vlib
import runtraces


def selftest(rows):
    muts = []
    for r in rows:
        if r["accepted"] and len(r["plan"]) >= 2 and len(muts) < 3:
            m = copy.deepcopy(r)
            m["plan"] = m["plan"][1:]                   # a kept stage missing
            muts.append(m)
    for r in rows:
        if r["accepted"] and len(muts) < 6:
            m = copy.deepcopy(r)
            m["total_ms"] += 1000                       # wrong total duration
            muts.append(m)
    return muts


def run(tier, seed, replay_rows=None):
    ck = vlib.Check("C15", tier, seed)
    ck.rule = ("an observation = a random abstract config (default section + 1-4 stages over modes constant/users/ramp/staged, "
               "each field present or omitted, stage-start absent or `now` placed -1/0/+1 ms and further around every cumulative "
               "stage boundary, random limits) rendered to YAML and parsed by the real ParseConfigFile(now); the plan is read from "
               "the parsed stages' behaviour; non-trivial = accepted configs; distinct by YAML+now")
    ck.assumptions = ["values of stage and default fields are chosen distinct so that inheritance is observable",
                      "distribution none and jitter 0 (rate functions deterministic)"]
    rows = vlib.flow(ck, mcs=[("MC_ConfigPlan", "MC_ConfigPlan.cfg", dict(workers=8, timeout=900))],
                     sub="c15", trace_module="Trace_ConfigPlan", trace_cfg="Trace_ConfigPlan.cfg", trace_file="c15.ndjson", var="l",
                     key_of=lambda r: "parser-crashed" if r["panicked"] else ("acceptance-differs" if r["accepted"] != bool(r["plan"]) and False else "plan-differs"),
                     nontrivial=lambda r: r["accepted"], distinct_key=lambda r: r["yaml"] + str(r["cfg"]["now_off"]),
                     describe=lambda r: json.dumps(dict(cfg=r["cfg"], accepted=r["accepted"], plan=r["plan"], total=r["total_ms"], msg=r.get("msg")))[:1200],
                     selftest=selftest, replay_rows=replay_rows, workers=8)
    if replay_rows is None:
        # the jitter field (not visible in the plan view above, which needs deterministic rate functions): own value -
        # also an explicit 0 - else the default's, else none; 4 modes x 3 x 3 placements, observed through behaviour
        vlib.flow(ck, mcs=[], sub="c15jit", trace_module="Trace_ConfigJitter", trace_cfg="Trace_ConfigJitter.cfg",
                  trace_file="c15jit.ndjson", var="l", key_of=lambda r: "jitter-inheritance-differs@" + r["mode"],
                  describe=lambda r: json.dumps(r)[:900], workers=2)
    if replay_rows is None:
        # "the limits mapped one-to-one onto the run options": the two failure tolerances of the limits section, written or
        # omitted, seen through the verdict of a real `run file <path>` (rows judged by Verdict!Failed)
        vlib.flow(ck, mcs=[], sub="c15limits", trace_module="Trace_Verdict", trace_cfg="Trace_Verdict.cfg",
                  trace_file="c15limits.ndjson", var="l", key_of=lambda r: "limits-not-mapped-onto-the-run-options",
                  describe=lambda r: json.dumps(r)[:600], workers=2)
    if replay_rows is None:
        # run-time clauses: stages strictly sequential, parameters in the environment while triggering, none left
        runtraces.check(ck, "C15", only="file")
    return ck.finish()


def replay(path, seed):
    rp = json.load(open(path))
    if rp["replay"].get("sub") != "c15":
        return run("quick", seed)          # jitter / run-time observations are re-made on the current tree
    return vlib.std_replay(run, path, seed)
