"""C01 — every executed iteration is counted exactly once, with its true outcome.
A  ProgressStats (atomic-operation grain): default configuration passes; the mutant configurations
   (read-then-reset collection, unserialised collectors) must yield counterexamples (non-vacuity).
C  every hook-grain interleaving of recorders / periodic snapshot / final totals is executed on the
   real progress.Stats + run.Result under the cooperative scheduler (stateless DFS) and each
   schedule log is validated by TLC against Trace_ProgressStats (observer form of the invariants).
   Whole Run.Do runs with ground truth are validated by the run-trace check (F1Run) as well."""
import copy
import json
import vlib
import runtraces


def key_of(t):
    if t.get("err"):
        return "scheduler-error"
    return "lost-or-double-counted"


def selftest(rows):
    muts = []
    for t in rows:
        if t["ev"] and t["ev"][-1][0] == "end" and len(muts) < 3:
            m = copy.deepcopy(t)
            m["ev"][-1][2] += 1                 # final result over-counts
            muts.append(m)
    for t in rows:
        st = [j for j, e in enumerate(t["ev"]) if e[0] == "stored" and e[2] >= 0]
        if st and len(muts) < 6:
            m = copy.deepcopy(t)
            m["ev"][st[0]][2] += 5              # a snapshot shows more than was ever recorded
            muts.append(m)
    return muts


def run(tier, seed, replay_rows=None):
    ck = vlib.Check("C01", tier, seed)
    ck.rule = ("a trace = one complete hook-grain schedule of {recorders x Adds, periodic SnapshotProgress, final "
               "GetTotals} executed on the real progress.Stats/run.Result; schedules enumerated depth-first (exhaustive "
               "for the small configurations, capped otherwise); non-trivial = a recorder step falls between a "
               "collector's begin and its store; distinct by schedule string")
    ck.assumptions = ["Go atomics sequentially consistent; interleavings inside a segment (between two yield points) are "
                      "explored by TLC on the specification only",
                      "min/max under concurrency are not asserted (documented as approximate)"]
    # unbounded: collect-by-swap loses and double counts nothing for ANY number of recorders and snapshots (inductive
    # invariant, Apalache); the original read-then-reset collect (defect bd554c8) must not be inductive
    vlib.inductive(ck, "CollectInd", mutant="CollectIndMut")
    kw = dict(workers=8, timeout=600)
    # mutant configurations must fail on the specification (non-vacuity of the invariants)
    for cfg in ("Mut_ProgressStats_ReadReset.cfg", "Mut_ProgressStats_Unlocked.cfg"):
        r = vlib.run_tlc("ProgressStats", cfg, **kw)
        if r.violated != "Conserved":
            raise vlib.MachineryError("%s should violate Conserved on the spec but gave %s" % (cfg, r.summary()))
        ck.add_tlc(cfg, r)
    ck.notes["mutant_configs_refuted"] = 2

    def nontrivial(t):
        inside = False
        for e in t["ev"]:
            if e[0] == "collect.begin":
                inside = True
            elif e[0] == "stored":
                inside = False
            elif e[0] in ("summed", "counted") and inside:
                return True
        return False

    vlib.flow(ck, mcs=[("ProgressStats", "MC_ProgressStats.cfg", kw), ("ProgressStats", "MC_ProgressStats_NoStopWait.cfg", kw)],
              sub="c01", trace_module="Trace_ProgressStats", trace_cfg="Trace_ProgressStats.cfg", trace_file="c01.ndjson",
              key_of=key_of, nontrivial=nontrivial, distinct_key=lambda t: "%d/%d/%d:%s" % (t["nrec"], t["adds"], t["nsnap"], t["sched"]),
              describe=lambda t: json.dumps(dict(cfg=[t["nrec"], t["adds"], t["nsnap"]], sched=t["sched"], ev=t["ev"], err=t["err"])),
              selftest=selftest, replay_rows=replay_rows, workers=4)
    if replay_rows is None:
        # run-level clauses of this property on whole-run traces (F1Run observer)
        runtraces.check(ck, "C01")
    return ck.finish()


def replay(path, seed):
    return vlib.std_replay(run, path, seed)
