"""C16 — run-level clauses decided on whole-run traces validated by TLC against F1Run."""
import vlib
import runtraces

RULES = {
 "C03": "a trace = one real Run.Do with a max-iterations limit (constant/users/file x limits {1,2,7,17,64,...} x concurrency {1,2,16,100}, tick sizes up to 5x the limit) or without; ids/handles logged inside the scenario function; non-trivial = runs with a limit or more than one worker",
 "C04": "a trace = one real Run.Do; every body start/end carries the handle; upper bound and handle exclusivity checked on every event; lower bound by rendezvous scenarios that only complete if 'concurrency' bodies overlap (constant with one tick >= concurrency, users); non-trivial = concurrency >= 2",
 "C09": "a trace = one real rate-mode Run.Do; every rate evaluation (hook iw.eval: value, monotonic time) and every published tick size (hook tp.send.locked, in cond-lock order) is logged; cadence bound and value equality checked on every event; non-trivial = at least 3 evaluations",
 "C16": "a trace = one of 1-3 consecutive real Run.Do runs on ONE metrics instance (private registry, generated static label maps incl. keys that are prefixes/values of each other); Registry.Gather() flattened per series; non-trivial = run index >= 1 or static labels present",
}


def run(tier, seed, replay_rows=None):
    ck = vlib.Check("C16", tier, seed)
    ck.rule = RULES["C16"]
    ck.assumptions = ["free-running runs: events are logged by the harness's own scenario function / hook function under one mutex; "
                      "only invariants that are sound for that log order are checked (see DESIGN.md)"]
    # MECHANISM_MCS: exhaustive model checking of the mechanism specifications behind the run-level clauses
    for mod, cfg in (("MC_Metrics", "MC_Metrics.cfg"),):
        r = vlib.run_tlc(mod, cfg, workers=16, timeout=1800)
        vlib.require_tlc_ok(r, cfg)
        ck.add_tlc(cfg, r)
    # the mutant configuration of the same specification - a push that only ADDS the families it carries (POST) - must
    # leave an earlier run's samples on the gateway
    r = vlib.run_tlc("MC_Metrics", "Mut_Metrics_PushAdd.cfg", workers=4, timeout=600)
    if r.violated != "GatewayMirrorsRun":
        raise vlib.MachineryError("Mut_Metrics_PushAdd.cfg should violate GatewayMirrorsRun on the spec but gave %s" % r.summary())
    ck.add_tlc("Mut_Metrics_PushAdd.cfg", r)
    ck.notes["mutant_configs_refuted"] = 1
    runtraces.check(ck, "C16", rows=replay_rows)
    if replay_rows is None:
        # the exported metric as the push gateway holds it: consecutive runs (passing, mixed, failing setup, interrupted
        # before the first iteration) on one metrics instance pushing to a gateway with the real PUT / POST semantics
        import json
        vlib.flow(ck, mcs=[], sub="c16push", trace_module="Trace_Gateway", trace_cfg="Trace_Gateway.cfg",
                  trace_file="c16push.ndjson", var="l", key_of=lambda r: "gateway-does-not-mirror-the-run@" + r["kind"],
                  describe=lambda r: json.dumps(r)[:600], workers=2)
    return ck.finish()


def replay(path, seed):
    return run("quick", seed)
