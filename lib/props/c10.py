"""C10 — staged and ramp profiles are the configured piecewise-linear shapes."""
import copy
import json
import vlib


def key_of(t):
    if t.get("panicked"):
        return "%s-rejected-or-panicked" % t["kind"]
    return t["kind"]


def selftest(rows):
    muts = []
    for t in rows:
        if t["kind"] == "staged" and len(t["ev"]) > 4 and len(muts) < 4:
            m = copy.deepcopy(t)
            m["ev"][-1][1] = 1 if m["ev"][-1][1] == 0 else m["ev"][-1][1] + 2   # not 0 after the end / off by 2
            muts.append(m)
    for t in rows:
        if t["kind"] == "staged" and len(muts) < 6:
            m = copy.deepcopy(t)
            m["dur"] += 1                                                   # wrong reported total duration
            muts.append(m)
    for t in rows:
        if t["kind"] == "ramp" and len(t["ev"]) > 3 and len(muts) < 9 and abs(t["S"] - t["E"]) > 4:
            m = copy.deepcopy(t)
            m["ev"][1][1] = max(t["S"], t["E"]) + 1                         # outside the two targets
            muts.append(m)
    return muts


def run(tier, seed, replay_rows=None):
    ck = vlib.Check("C10", tier, seed)
    ck.rule = ("a trace = one stage list (or ramp) queried on the real calculator at non-decreasing synthetic "
               "timestamps incl. every boundary -1/0/+1 unit; non-trivial = at least one stage with different start "
               "and end target and non-zero duration; distinct by argument string")
    ck.assumptions = ["time in integer units (ns/us/ms/s) chosen so that products stay below 2^31",
                      "distribution none, jitter 0"]
    kw = dict(workers=8, timeout=600)
    # unbounded: one stage, all targets / durations / offsets in Nat (Apalache); mutant (off+1) must be refuted
    vlib.apalache_theorems(ck, "StagedInd", mutant="StagedIndMut")
    vlib.flow(ck, mcs=[("Staged", "MC_Staged.cfg", kw), ("Staged", "MC_Staged_Impl.cfg", kw)],
              sub="c10", trace_module="Trace_Staged", trace_cfg="Trace_Staged.cfg", trace_file="c10.ndjson",
              key_of=key_of,
              nontrivial=lambda t: (t["kind"] == "ramp") or any(d > 0 for d, e in t["stages"]),
              distinct_key=lambda t: t["arg"] + t["unit"], selftest=selftest, replay_rows=replay_rows)
    if replay_rows is None:
        # the profile follows REAL time inside a running trigger: whole runs of a staged step profile whose trigger goroutine
        # is stalled early on (API and command line), every evaluation logged at iw.eval (whole-run observer, clause C10)
        import runtraces
        runtraces.check(ck, "C10", only="staged-step", parts=2)
    return ck.finish()


def replay(path, seed):
    rp = json.load(open(path))
    if "cfg" in (rp["replay"].get("rows") or [{}])[0]:
        return run("quick", seed)          # whole-run observations are re-made on the current tree
    return vlib.std_replay(run, path, seed)
