"""C19 — summary and progress output state the same numbers as the result they render."""
import copy
import json
import vlib
import runtraces


def selftest(rows):
    muts = []
    for r in rows:
        if r["kind"] == "summary" and r["form"] == "text" and r["p_s"] > 0 and len(muts) < 3:
            m = copy.deepcopy(r)
            m["pct_s"] += 150                  # a percentage that is not the share of all iterations
            muts.append(m)
    for r in rows:
        if r["kind"] == "summary" and len(muts) < 6:
            m = copy.deepcopy(r)
            m["banner"] = "passed" if r["banner"] == "failed" else "failed"
            muts.append(m)
    return muts


def run(tier, seed, replay_rows=None):
    ck = vlib.Check("C19", tier, seed, level="other")
    ck.rule = ("an observation = one rendered summary or progress line (text template and structured slog JSON) from a real "
               "run.Result (all count triples up to 4/6, random larger ones, drops, errors, stragglers recorded after the final "
               "totals, started/not started clock) or from directly built view data (extreme durations, 10^9-scale counts, "
               "multi-line errors, template metacharacters in paths); numbers extracted by anchored regexps / JSON; "
               "non-trivial = a non-zero count is shown; distinct by extracted output")
    ck.assumptions = ["only the non-tty template is rendered (the tty variant is the same template with colour codes)",
                      "percentages checked exactly for totals < 200000"]
    ck.notes["explanation"] = ("Relations between a result and the numbers its rendering must state (Report.tla) are evaluated by "
                               "TLC on every observation; there is no state space to explore, hence level 'other'. The whole-run "
                               "traces (F1Run clause C19: summary counts = result) are validated as well.")
    vlib.flow(ck, mcs=[], sub="c19", trace_module="Trace_Report", trace_cfg="Trace_Report.cfg", trace_file="c19.ndjson", var="l",
              key_of=lambda r: "rendering-panicked" if r["panicked"] else "%s-%s-misstated" % (r["kind"], r["form"]),
              nontrivial=lambda r: r["s"] + r["f"] + r["d"] > 0, distinct_key=lambda r: r["kind"] + r["form"] + r["out"][:200],
              describe=lambda r: json.dumps(r)[:700], selftest=selftest, replay_rows=replay_rows, workers=8)
    if replay_rows is None:
        runtraces.check(ck, "C19")
    return ck.finish()


def replay(path, seed):
    return vlib.std_replay(run, path, seed)
