"""Extension layer (not a registered property check): behaviour beyond the listed properties, decided with the
same machinery.  bin/extended [--tier quick|thorough]; exit 0 = held, 1 = deviation, 2 = machinery failure."""
import json
import os
import re
import sys
import time
import vlib
import runtraces


def x_whys(output):
    out = {}
    for ch in re.split(r"Error: Invariant \S+ is violated", output)[1:]:
        m = re.search(r"^(?:/\\ )?tr = (\d+)", ch, re.M)
        if not m:
            continue
        k = int(m.group(1))
        seg = ch.split("whyX =", 1)
        body = seg[1] if len(seg) > 1 else ch
        for mm in re.finditer(r'\[p \|-> "(X\w+|MACHINERY)", c \|-> "([^"]*)"\]|\[c \|-> "([^"]*)", p \|-> "(X\w+|MACHINERY)"\]', body):
            p, c = (mm.group(1), mm.group(2)) if mm.group(1) else (mm.group(4), mm.group(3))
            out.setdefault(k, set()).add(p + ":" + c)
    return out


def run(tier, seed):
    t0 = time.time()
    binary = vlib.build_harness()
    report = dict(tier=tier, seed=seed, layers={})
    rc = 0
    with vlib.Scratch("verif-ext-") as d:
        rows = runtraces.collect(binary, tier, seed, d)
        f = os.path.join(d, "all.ndjson")
        vlib.write_ndjson(f, rows)
        res, bad = vlib.validate_rows("F1RunX", "Trace_F1RunX.cfg", f, var="tr", workers=8, timeout=1500)
    w = x_whys(res.output)
    groups = {}
    for k in bad:
        r = rows[k - 1]
        for reason in sorted(w.get(k, {"X:unparsed"})):
            if reason.startswith("MACHINERY"):
                raise vlib.MachineryError("run harness error in %s: %s" % (r["cfg"]["name"], reason))
            groups.setdefault(reason, []).append(r["cfg"]["name"])
    kinds = {}
    for r in rows:
        for e in r["ev"]:
            if e["k"] in ("endmsg", "timeoutmsg"):
                kinds[e["k"] + ":" + e["s"]] = kinds.get(e["k"] + ":" + e["s"], 0) + 1
    report["layers"]["X05"] = dict(runs=len(rows), states=res.distinct, messages_seen=kinds,
                                   deviations={k: v[:5] for k, v in groups.items()})
    # X14: the chart command terminates for every chart duration (it samples the profile at duration/159 steps)
    import subprocess
    chart = {}
    for dur in ("10m", "1s", "0s", "-1s", "100ns"):
        case = json.dumps({"args": ["chart", "constant", "-r", "5/s", "--chart-duration", dur], "yaml": ""})
        try:
            p = subprocess.run([binary, "c14cli", "-x", "case=" + case], cwd=vlib.HARNESS, env=vlib.env_with(), stdout=subprocess.PIPE,
                               stderr=subprocess.STDOUT, text=True, timeout=30)
            out = p.stdout
        except subprocess.TimeoutExpired:
            out = "did not return"
        chart[dur] = "hangs" if "did not return" in out else "returns"
        if chart[dur] == "hangs":
            groups.setdefault("X14:chart-does-not-terminate(--chart-duration %s)" % dur, []).append("chart constant")
    report["layers"]["X14"] = chart
    for k, v in sorted(groups.items()):
        print("EXTENDED-DEVIATION %s in %d run(s), e.g. %s" % (k, len(v), v[:3]))
        rc = 1
    print("[extended %s seed=%d] runs=%d states=%d messages=%s deviations=%d wall=%.1fs" % (
        tier, seed, len(rows), res.distinct, json.dumps(kinds, sort_keys=True), len(groups), time.time() - t0))
    os.makedirs(os.path.join(vlib.VERIF, "extended"), exist_ok=True)
    json.dump(report, open(os.path.join(vlib.VERIF, "extended", "last.json"), "w"), indent=1, sort_keys=True)
    return rc


if __name__ == "__main__":
    tier = "quick"
    if "--tier" in sys.argv:
        tier = sys.argv[sys.argv.index("--tier") + 1]
    try:
        sys.exit(run(tier, int(os.environ.get("VERIF_SEED", "1") or "1")))
    except vlib.MachineryError as e:
        print("MACHINERY-FAILURE:", e)
        sys.exit(2)
