"""bin/check --setup : offline build of the framework from files on disk."""
import os
import vlib


def run():
    vlib.build_harness()
    bad = []
    for f in sorted(os.listdir(vlib.SPEC)):
        if f.endswith(".tla"):
            ok, out = vlib.sany(f[:-4])
            if not ok:
                bad.append(f)
                vlib.log(out[-1500:])
    if bad:
        vlib.log("SANY failed for: %s" % bad)
        return 2
    vlib.log("setup ok: harness built, %d specs parse" % len([f for f in os.listdir(vlib.SPEC) if f.endswith('.tla')]))
    return 0
