"""Shared machinery of C06 / C07 / C20: TLC enumerates (or simulates) behaviours of
spec/Lifecycle.tla — each is a program for every user function plus the event log and result the
specification requires — and each behaviour is replayed on the REAL Run.Do (harness sub-command
`lifecycle`); the observed log must equal the specified one on the property's projection."""
import json
import os
import re
import vlib


def gen_behaviours(cfg, ncomp, niter, *, simulate=None, seed=None, timeout=1800, workers=8):
    kw = dict(timeout=timeout, workers=workers)
    if simulate:
        kw.update(simulate="num=%d" % simulate, depth=200, seed=seed, workers=1)
    r = vlib.run_tlc("MC_Lifecycle", cfg, **kw)
    vlib.require_tlc_ok(r, cfg)
    out = []
    seen = set()
    for ln in r.output.splitlines():
        if ln.startswith('<<"BEH"'):
            m = re.match(r'^<<"BEH", "(.*)">>$', ln)
            if not m or m.group(1) in seen:
                continue
            seen.add(m.group(1))
            js = m.group(1).replace('\\"', '"').replace("\\\\", "\\")
            out.append({"ncomp": ncomp, "niter": niter, "log": json.loads(js)})
    if not out:
        raise vlib.MachineryError("%s produced no behaviours" % cfg)
    return r, out


def replay_all(binary, behaviours, workdir):
    """Run the harness over all behaviours, restarting after a process death (which is itself an
    observation: the behaviour that was executing killed the process)."""
    inp = os.path.join(workdir, "beh.ndjson")
    vlib.write_ndjson(inp, behaviours)
    outp = os.path.join(workdir, "lifecycle.ndjson")
    if os.path.exists(outp):
        os.remove(outp)
    start = 0
    deaths = []
    while True:
        rc, out = vlib.run_drive(binary, "lifecycle", ["-in", inp, "-out", workdir, "-x", "start=%d" % start],
                                 check=False, timeout=3600)
        if rc == 0:
            break
        try:
            last = int(open(os.path.join(workdir, "lifecycle.progress")).read().split()[-1])
        except Exception:
            raise vlib.MachineryError("lifecycle harness failed without progress:\n" + out[-3000:])
        if "panic:" not in out and "fatal error" not in out and "goroutine " not in out:
            raise vlib.MachineryError("lifecycle harness exited %d:\n%s" % (rc, out[-3000:]))
        deaths.append((last, out[-2500:]))
        start = last
        if len(deaths) > 25:
            break
    results = vlib.read_ndjson(outp) if os.path.exists(outp) else []
    return results, deaths


def run_property(ck, configs, normalize, concern, replay_rows=None):
    """configs: list of (mc_cfg or None, gen_cfg, ncomp, niter, simulate_n or None, sample_every)."""
    binary = None
    total = 0
    with vlib.Scratch("verif-lc-") as d:
        if replay_rows is not None:
            behaviours = replay_rows
        else:
            behaviours = []
            for mc, gen, ncomp, niter, sim, every in configs:
                if mc:
                    r = vlib.run_tlc("MC_Lifecycle", mc, workers=16, timeout=1800)
                    vlib.require_tlc_ok(r, mc)
                    ck.add_tlc(mc, r)
                r, beh = gen_behaviours(gen, ncomp, niter, simulate=sim, seed=ck.seed)
                if not mc:
                    ck.add_tlc(gen, r)
                if every > 1:
                    off = ck.seed % every
                    beh = beh[off::every]
                behaviours += beh
        binary = vlib.build_harness()
        results, deaths = replay_all(binary, behaviours, d)
        ck.traces += len(results)
        ck.evaluations += len(results)
        for idx, tail in deaths:
            b = behaviours[idx - 1]
            ck.observe("process-death", "the process died while executing behaviour %d (a panic escaped f1): %s" % (
                idx, tail[-600:]), dict(rows=[b]))
        groups = {}
        for r in results:
            b = behaviours[r["idx"] - 1]
            ck.add_distinct(json.dumps(b["log"])[:2000])
            if r["match"]:
                continue
            exp = normalize(r.get("expected") or [])
            obs = normalize(r.get("observed") or [])
            if r.get("note"):
                k = "note"
            elif json.dumps(exp) == json.dumps(obs):
                continue        # the deviation is outside this property's projection (another property's concern)
            else:
                k = concern(exp, obs)
            groups.setdefault(k, []).append((r, b))
        for k, lst in groups.items():
            r, b = lst[0]
            ck.observe(k, "%s: real Run.Do deviates from Lifecycle on %d behaviours; first (mode %s): program+expected=%s observed=%s %s" % (
                k, len(lst), r["mode"], json.dumps(_compact(b["log"]))[:700], json.dumps(_compact(r.get("observed") or []))[:500],
                r.get("note", "")), dict(rows=[x[1] for x in lst[:10]]))
        for b in behaviours[:: max(1, len(behaviours) // 3)][:3]:
            ck.add_sample(_compact(b["log"]))
    return behaviours


def _compact(log):
    out = []
    for e in log:
        if e["t"] == "P":
            out.append("%s[%d,%d]:=%s" % (e["f"], e["i"], e["c"], "·".join(e["p"])))
        elif e["t"] == "E":
            out.append("%s[%d,%d]" % (e["f"], e["i"], e["c"]))
        else:
            out.append("R(succ=%d,fail=%d,errs=%s)" % (e["i"], e["c"], e["p"]))
    return out
