"""Shared machinery for /verif checks: TLC runner, Go harness builder/runner, evidence writer,
known-findings handling.  Exit-code contract (bin/check):
  0 = property held on everything explored (KNOWN-FINDING lines allowed)
  1 = VIOLATION (only ever from an observation of the real code)
  2 = machinery failure (never a verdict about the code)
"""
import json
import os
import re
import shutil
import signal
import subprocess
import sys
import tempfile
import time

VERIF = os.path.dirname(os.path.dirname(os.path.abspath(__file__)))
REPO = os.environ.get("VERIF_REPO", "/repo")
SPEC = os.path.join(VERIF, "spec")
HARNESS = os.path.join(VERIF, "harness")
EVIDENCE = os.path.join(VERIF, "evidence")
REPLAYS = os.path.join(EVIDENCE, "replays")
BUILD = os.path.join(VERIF, ".build")

GOENV = {
    "GOFLAGS": "-mod=mod",
    "GOPROXY": "off",
    "GOSUMDB": "off",
    "GOTOOLCHAIN": "local",
}


class MachineryError(Exception):
    """Something in the verification machinery failed (exit 2). Never a verdict."""


def log(*a):
    print(*a, flush=True)


def env_with(extra=None):
    e = dict(os.environ)
    e.update(GOENV)
    if extra:
        e.update({k: str(v) for k, v in extra.items()})
    return e


# --------------------------------------------------------------------------- scratch dirs

class Scratch:
    def __init__(self, prefix="verif-"):
        self.path = tempfile.mkdtemp(prefix=prefix)

    def __enter__(self):
        return self.path

    def __exit__(self, *a):
        shutil.rmtree(self.path, ignore_errors=True)


# --------------------------------------------------------------------------- TLC

class TLCResult:
    def __init__(self):
        self.ok = False            # completed with no error
        self.generated = 0
        self.distinct = 0
        self.depth = 0
        self.violated = None       # name of violated invariant / property
        self.error = None          # other error text (evaluation error, deadlock, ...)
        self.deadlock = False
        self.cex = []              # list of (header, {var: text}) states of the counterexample
        self.output = ""
        self.wall_s = 0.0
        self.coverage_zero = []    # actions/expressions with 0 count when -coverage used
        self.postcondition_failed = False
        self.timed_out = False

    def summary(self):
        return dict(ok=self.ok, generated=self.generated, distinct=self.distinct, depth=self.depth,
                    violated=self.violated, deadlock=self.deadlock, error=self.error,
                    timed_out=self.timed_out, wall_s=round(self.wall_s, 2))


_STATE_HDR = re.compile(r"^State (\d+): (.*)$")


def parse_tlc_output(out, res):
    res.output = out
    m = None
    for m in re.finditer(r"(\d+) states generated, (\d+) distinct states found", out):
        pass
    if m:
        res.generated = int(m.group(1))
        res.distinct = int(m.group(2))
    m = re.search(r"The depth of the complete state graph search is (\d+)", out)
    if m:
        res.depth = int(m.group(1))
    m = re.search(r"Error: Invariant (\S+) is violated", out)
    if m:
        res.violated = m.group(1)
    m2 = re.search(r"Error: Action property (\S+) is violated", out)
    if m2:
        res.violated = m2.group(1)
    if "Temporal properties were violated" in out:
        res.violated = res.violated or "TemporalProperty"
    if "Deadlock reached" in out:
        res.deadlock = True
    if re.search(r"Error: .*[Pp]ostcondition", out) or "POSTCONDITION" in out and "violated" in out:
        res.postcondition_failed = True
    if "Model checking completed. No error has been found." in out:
        res.ok = True
    ms = re.search(r"The number of states generated: (\d+)", out)
    if ms and "Simulation using seed" in out:
        res.generated = int(ms.group(1))
        res.distinct = res.distinct or res.generated
        if not re.search(r"^Error:", out, re.M):
            res.ok = True
    if not res.ok and not res.violated and not res.deadlock and not res.postcondition_failed:
        errs = [ln for ln in out.splitlines() if ln.startswith("Error:")]
        res.error = "\n".join(errs[:5]) if errs else "TLC did not complete"
    # counterexample states
    cur = None
    for ln in out.splitlines():
        h = _STATE_HDR.match(ln)
        if h:
            cur = (h.group(2), [])
            res.cex.append(cur)
            continue
        if cur is not None:
            if ln.strip() == "" or ln.startswith(("Error", "Finished", "The ", "Progress")) or re.match(r"^\d+ states generated", ln):
                cur = None
                continue
            cur[1].append(ln)
    return res


def cex_vars(state_lines):
    """Parse 'var = value' / '/\\ var = value' lines of one TLC state into a dict of raw strings."""
    d = {}
    key = None
    for ln in state_lines:
        m = re.match(r"^(?:/\\ )?(\w+) = (.*)$", ln)
        if m:
            key = m.group(1)
            d[key] = m.group(2)
        elif key:
            d[key] += " " + ln.strip()
    return d


def run_tlc(module, cfg, *, workers=16, timeout=600, env=None, extra_args=None, files=None,
            simulate=None, depth=None, seed=None, coverage=False, deadlock=None, dfid=None,
            keep=None, xss=None):
    """Run TLC on spec/<module>.tla with spec/<cfg>. Everything is copied to a scratch dir first
    so no litter lands in /verif/spec. `files` = extra {name: path} copied next to the spec.
    Returns TLCResult. Raises MachineryError on parse/semantic errors."""
    res = TLCResult()
    t0 = time.time()
    with Scratch("verif-tlc-") as d:
        for f in os.listdir(SPEC):
            if f.endswith((".tla", ".cfg")):
                shutil.copy(os.path.join(SPEC, f), d)
        for name, path in (files or {}).items():
            shutil.copy(path, os.path.join(d, name))
        args = ["tlc", "-workers", str(workers), "-metadir", os.path.join(d, "md"),
                "-noGenerateSpecTE", "-config", cfg]
        if simulate:
            args += ["-simulate", simulate]
        if depth:
            args += ["-depth", str(depth)]
        if seed is not None:
            args += ["-seed", str(seed)]
        if coverage:
            args += ["-coverage", "1"]
        if deadlock is False:
            args += ["-deadlock"]
        if dfid:
            args += ["-dfid", str(dfid)]
        args += extra_args or []
        args += [module + ".tla"]
        e = env_with(env)
        jopts = e.get("JAVA_TOOL_OPTIONS", "")
        if xss:
            jopts = (jopts + " -Xss" + xss).strip()
        if jopts:
            e["JAVA_TOOL_OPTIONS"] = jopts
        # own process group: a timeout kills THIS model-checker run (wrapper script + JVM) and nothing else - other
        # checks may be running their own TLC at the same time
        pr = subprocess.Popen(args, cwd=d, env=e, stdout=subprocess.PIPE, stderr=subprocess.STDOUT, text=True,
                              errors="replace", start_new_session=True)
        try:
            out, _ = pr.communicate(timeout=timeout)
        except subprocess.TimeoutExpired:
            res.timed_out = True
            try:
                os.killpg(pr.pid, signal.SIGKILL)
            except ProcessLookupError:
                pass
            out, _ = pr.communicate()
            out = out or ""
        parse_tlc_output(out, res)
        if keep:
            for name in keep:
                src = os.path.join(d, name)
                if os.path.exists(src):
                    shutil.copy(src, keep[name])
    res.wall_s = time.time() - t0
    if re.search(r"(Parsing or semantic analysis failed|\*\*\* Errors:|Fatal errors while parsing|Could not parse)", res.output):
        raise MachineryError("TLC could not parse %s/%s:\n%s" % (module, cfg, res.output[-3000:]))
    if coverage:
        for ln in res.output.splitlines():
            m = re.match(r"^<(\w+) line .*>: (\d+):(\d+)$", ln.strip())
            if m and m.group(2) == "0" and m.group(3) == "0":
                res.coverage_zero.append(m.group(1))
    return res


def require_tlc_ok(res, what):
    """Exhaustive spec-level run must pass; a failure here is a machinery failure (spec bug),
    never a verdict about the code."""
    if res.timed_out:
        raise MachineryError("%s: TLC timed out" % what)
    if not res.ok:
        raise MachineryError("%s: TLC did not pass on the specification itself: %s\n%s" % (
            what, res.summary(), res.output[-4000:]))


def sany(module):
    with Scratch("verif-sany-") as d:
        for f in os.listdir(SPEC):
            if f.endswith(".tla"):
                shutil.copy(os.path.join(SPEC, f), d)
        p = subprocess.run(["tla-sany", module + ".tla"], cwd=d, stdout=subprocess.PIPE,
                           stderr=subprocess.STDOUT, text=True, timeout=120)
        ok = p.returncode == 0 and "Semantic errors" not in p.stdout and "***Parse Error***" not in p.stdout \
            and "Fatal errors" not in p.stdout
        return ok, p.stdout


def run_apalache(module, *, init, inv, length, timeout=300):
    """apalache-mc check --init=<init> --inv=<inv> --length=<length> on spec/<module>.tla in a scratch copy.
    Returns (verdict, seconds, output): verdict True = NoError, False = invariant violated; anything else raises."""
    with Scratch("verif-apa-") as d:
        shutil.copy(os.path.join(SPEC, module + ".tla"), d)
        t0 = time.time()
        p = subprocess.Popen(["apalache-mc", "check", "--init=" + init, "--inv=" + inv, "--length=%d" % length,
                              "--out-dir=" + os.path.join(d, "out"), module + ".tla"], cwd=d, env=env_with(),
                             stdout=subprocess.PIPE, stderr=subprocess.STDOUT, text=True, errors="replace",
                             start_new_session=True)
        try:
            out, _ = p.communicate(timeout=timeout)
        except subprocess.TimeoutExpired:
            try:
                os.killpg(p.pid, signal.SIGKILL)     # the wrapper script AND its JVM, nothing else
            except ProcessLookupError:
                pass
            p.communicate()
            raise MachineryError("apalache timed out on %s (%s)" % (module, inv))
        wall = time.time() - t0
    if "The outcome is: NoError" in out and p.returncode == 0:
        return True, wall, out
    if "The outcome is: Error" in out and "invariant" in out and "violated" in out:
        return False, wall, out
    raise MachineryError("apalache failed on %s: %s" % (module, out[-1500:]))


def inductive(ck, module, inv="IndInv", mutant=None, timeout=300):
    """Unbounded safety by induction with Apalache: Init => IndInv (length 0) and IndInv /\ Next => IndInv' (length 1,
    started from the arbitrary IndInv state IndInit). `mutant` is a module whose IndInv is NOT inductive: it must be
    refuted, otherwise the proof step is vacuous."""
    a, w0, o0 = run_apalache(module, init="Init", inv=inv, length=0, timeout=timeout)
    b, w1, o1 = run_apalache(module, init="IndInit", inv=inv, length=1, timeout=timeout)
    ck.tlc_runs.append(dict(name="apalache:%s base+step" % module, ok=bool(a and b), wall_s=round(w0 + w1, 1),
                            generated=0, distinct=0, depth=1, violated=None if (a and b) else inv))
    if not (a and b):
        ck.violation("specification %s: %s is not inductive (%s)" % (module, inv, "base" if not a else "step"),
                     dict(kind="apalache", module=module, output=(o0 if not a else o1)[-3000:]))
    if mutant:
        c, w2, _ = run_apalache(mutant, init="IndInit", inv=inv, length=1, timeout=timeout)
        if c:
            raise MachineryError("mutant %s was proved inductive: the induction step is vacuous" % mutant)
        ck.tlc_runs.append(dict(name="apalache:%s (mutant, must be refuted)" % mutant, ok=True, wall_s=round(w2, 1),
                                generated=0, distinct=0, depth=1, violated=inv))


def apalache_theorems(ck, module, inv="Theorems", mutant=None, timeout=300):
    """State predicates over an arbitrary (unbounded) initial state: Init => inv, by Apalache. `mutant` must be refuted."""
    a, w0, o0 = run_apalache(module, init="Init", inv=inv, length=0, timeout=timeout)
    ck.tlc_runs.append(dict(name="apalache:%s %s for all initial states" % (module, inv), ok=bool(a), wall_s=round(w0, 1),
                            generated=0, distinct=0, depth=0, violated=None if a else inv))
    if not a:
        ck.violation("specification %s: %s does not hold for every state" % (module, inv),
                     dict(kind="apalache", module=module, output=o0[-3000:]))
    if mutant:
        c, w2, _ = run_apalache(mutant, init="Init", inv=inv, length=0, timeout=timeout)
        if c:
            raise MachineryError("mutant %s satisfies %s: the theorem check is vacuous" % (mutant, inv))
        ck.tlc_runs.append(dict(name="apalache:%s (mutant, must be refuted)" % mutant, ok=True, wall_s=round(w2, 1),
                                generated=0, distinct=0, depth=0, violated=inv))


# --------------------------------------------------------------------------- Go harness

def build_harness(tags="verif"):
    """Build the harness binary against /repo's CURRENT working tree. Returns path."""
    os.makedirs(BUILD, exist_ok=True)
    shutil.copy(os.path.join(REPO, "go.sum"), os.path.join(HARNESS, "go.sum"))
    # the harness module resolves f1 from REPO (normally /repo; a snapshot when VERIF_REPO is set for background sweeps)
    gm = os.path.join(HARNESS, "go.mod")
    txt = open(gm).read()
    new = re.sub(r"replace github.com/form3tech-oss/f1/v2 => \S+", "replace github.com/form3tech-oss/f1/v2 => " + REPO, txt)
    if new != txt:
        open(gm, "w").write(new)
    out = os.path.join(BUILD, "drive")
    t0 = time.time()
    p = subprocess.run(["go", "build", "-tags", tags, "-o", out, "./cmd/drive"], cwd=HARNESS,
                       env=env_with(), stdout=subprocess.PIPE, stderr=subprocess.STDOUT, text=True)
    if p.returncode != 0:
        raise MachineryError("harness build failed (does /repo compile?):\n" + p.stdout[-6000:])
    log("[build] harness built in %.1fs" % (time.time() - t0))
    return out


def run_drive(binary, sub, args=None, env=None, timeout=1200, check=True):
    """Run a harness sub-command. Returns (rc, stdout+stderr)."""
    a = [binary, sub] + [str(x) for x in (args or [])]
    try:
        p = subprocess.run(a, cwd=HARNESS, env=env_with(env), stdout=subprocess.PIPE,
                           stderr=subprocess.STDOUT, text=True, errors="replace", timeout=timeout)
    except subprocess.TimeoutExpired as ex:
        out = ex.stdout or ""
        if isinstance(out, bytes):
            out = out.decode("utf8", "replace")
        raise MachineryError("harness %s timed out after %ss\n%s" % (sub, timeout, out[-3000:]))
    if check and p.returncode != 0:
        raise MachineryError("harness %s exited %d:\n%s" % (sub, p.returncode, p.stdout[-6000:]))
    return p.returncode, p.stdout


def go_test_overlay(pkg_rel, test_files, run, tags="verif", env=None, timeout=900):
    """Compile harness _test.go files INTO a /repo package via -overlay (no file is written to
    /repo) and run them. test_files: {virtual name in package dir: real path}."""
    with Scratch("verif-ovl-") as d:
        ovl = {"Replace": {os.path.join(REPO, pkg_rel, n): p for n, p in test_files.items()}}
        oj = os.path.join(d, "overlay.json")
        json.dump(ovl, open(oj, "w"))
        a = ["go", "test", "-tags", tags, "-vet=off", "-count=1", "-overlay", oj, "-run", run,
             "-timeout", "%ds" % timeout, "./" + pkg_rel]
        p = subprocess.run(a, cwd=REPO, env=env_with(env), stdout=subprocess.PIPE,
                           stderr=subprocess.STDOUT, text=True, errors="replace", timeout=timeout + 60)
        return p.returncode, p.stdout


# --------------------------------------------------------------------------- ndjson helpers

def read_ndjson(path):
    out = []
    with open(path) as f:
        for ln in f:
            ln = ln.strip()
            if ln:
                out.append(json.loads(ln))
    return out


def write_ndjson(path, rows):
    with open(path, "w") as f:
        for r in rows:
            f.write(json.dumps(r, separators=(",", ":")) + "\n")


# --------------------------------------------------------------------------- known findings

def load_known():
    p = os.path.join(VERIF, "known_findings.json")
    if not os.path.exists(p):
        return {"findings": [], "fixed": []}
    return json.load(open(p))


# --------------------------------------------------------------------------- evidence / verdict

class Check:
    """Accumulates what one property check did and writes evidence + verdict."""

    def __init__(self, pid, tier, seed, level="model_checking"):
        self.pid = pid
        self.tier = tier
        self.seed = seed
        self.level = level
        self.t0 = time.time()
        # replay files of earlier runs of this check would only confuse: each run writes its own
        import glob
        for f in glob.glob(os.path.join(REPLAYS, "%s-%s-*.json" % (pid, tier))):
            try:
                os.remove(f)
            except OSError:
                pass
        self.states = 0
        self.transitions = 0
        self.traces = 0
        self.evaluations = 0
        self.distinct = set()
        self.distinct_count_extra = 0
        self.samples = []
        self.assumptions = []
        self.violations = []       # list of (description, replay_path)
        self.known_hits = []       # list of text
        self.notes = {}
        self.inconclusive = 0
        self.rule = ""
        self.tlc_runs = []
        self.exhaustive = False

    # -- accounting
    def add_tlc(self, name, res):
        self.states += res.distinct
        self.transitions += res.generated
        self.tlc_runs.append(dict(name=name, **res.summary()))

    def add_sample(self, s, limit=6):
        if len(self.samples) < limit:
            self.samples.append(s)

    def add_distinct(self, key):
        self.distinct.add(key)

    # -- verdicts
    def violation(self, desc, replay_obj):
        os.makedirs(REPLAYS, exist_ok=True)
        n = len(self.violations) + 1
        path = os.path.join(REPLAYS, "%s-%s-%d.json" % (self.pid, self.tier, n))
        with open(path, "w") as f:
            json.dump(dict(property=self.pid, description=desc, replay=replay_obj), f, indent=1, default=str)
        self.violations.append((desc, path))

    def observe(self, key, desc, replay_obj):
        """Report a real-code observation that the spec rejects. `key` identifies the specific
        failing input/schedule/call-site; if it is listed in known_findings.json as an open finding
        it prints KNOWN-FINDING instead of VIOLATION."""
        kf = load_known()
        for f in kf.get("findings", []):
            if f.get("property") == self.pid and f.get("key") == key:
                txt = "KNOWN-FINDING: property=%s %s" % (self.pid, f.get("what", key))
                if txt not in self.known_hits:
                    self.known_hits.append(txt)
                return False
        self.violation(desc, replay_obj)
        return True

    def finish(self):
        wall = time.time() - self.t0
        cov = dict(
            states=self.states,
            transitions=self.transitions,
            traces_validated_against_impl=self.traces,
            evaluations=self.evaluations,
            distinct_nontrivial=len(self.distinct) + self.distinct_count_extra,
            rule=self.rule,
            samples=self.samples if self.samples else ["(no sample recorded)"],
            exhaustive=self.exhaustive,
            tlc_runs=self.tlc_runs,
            inconclusive=self.inconclusive,
            known_findings_hit=self.known_hits,
        )
        cov.update(self.notes)
        ev = dict(property_id=self.pid, tier=self.tier, seed=int(self.seed), level=self.level,
                  coverage=cov, assumptions=self.assumptions, wall_s=round(wall, 2),
                  violations=len(self.violations))
        if self.level == "other":
            cov.setdefault("explanation", self.rule or "see DESIGN.md")
        os.makedirs(EVIDENCE, exist_ok=True)
        with open(os.path.join(EVIDENCE, self.pid + ".json"), "w") as f:
            json.dump(ev, f, indent=1, default=str)
        for k in self.known_hits:
            log(k)
        for desc, path in self.violations:
            log("VIOLATION property=%s replay=%s" % (self.pid, path))
            log("  " + desc)
        log("[%s %s seed=%s] states=%d transitions=%d traces=%d evaluations=%d distinct=%d violations=%d wall=%.1fs" % (
            self.pid, self.tier, self.seed, self.states, self.transitions, self.traces, self.evaluations,
            cov["distinct_nontrivial"], len(self.violations), wall))
        return 1 if self.violations else 0


# --------------------------------------------------------------------------- row validation

def _bad_indices(output, var):
    bad = set()
    names = {}
    chunks = re.split(r"Error: Invariant (\S+) is violated", output)
    for i in range(1, len(chunks) - 1, 2):
        m = re.search(r"^(?:/\\ )?%s = (\d+)" % var, chunks[i + 1], re.M)
        if m:
            k = int(m.group(1))
            bad.add(k)
            names.setdefault(k, set()).add(chunks[i])
    return bad, names


def validate_rows(module, cfg, trace_file, *, workers=8, timeout=900, env=None, var="l", files=None,
                  enumerate_cap=60):
    """Observation-log validation: every ndjson line is its own initial state (variable `var`
    = line index) of spec/<module>; TLC evaluates the invariants on each state of each trace.
    Pass 1 stops at the first rejection (fast when everything is accepted, the normal case).
    If something is rejected, pass 2 re-runs with -continue (capped at `enumerate_cap` s) to
    enumerate the other rejected lines so that they can be classified. Returns
    (TLCResult of pass 1, sorted list of rejected 1-based line indices)."""
    e = {"TRACE_FILE": trace_file}
    e.update(env or {})
    res = run_tlc(module, cfg, workers=workers, timeout=timeout, env=e, files=files)
    if "Error: Evaluating" in res.output or "was not in the domain" in res.output or "Attempted to" in res.output \
            or "evaluating the expression" in res.output:
        raise MachineryError("%s: TLC evaluation error during trace validation:\n%s" % (module, res.output[-3000:]))
    if res.timed_out:
        raise MachineryError("%s: trace validation timed out" % module)
    if res.error and not res.violated:
        raise MachineryError("%s: TLC error during trace validation: %s\n%s" % (module, res.error, res.output[-3000:]))
    # vacuity guard: every ndjson line must have become an initial state of the trace specification
    try:
        nrows = sum(1 for ln in open(trace_file) if ln.strip())
    except OSError:
        nrows = None
    mi = re.search(r"Finished computing initial states: (\d+) distinct state", res.output)
    if nrows is not None and mi and not res.violated and int(mi.group(1)) != nrows:
        raise MachineryError("%s: %d trace lines but %s initial states - some traces were not checked at all" % (
            module, nrows, mi.group(1)))
    bad, names = _bad_indices(res.output, var)
    if res.violated and not bad:
        raise MachineryError("%s: violation reported but no index parsed:\n%s" % (module, res.output[-3000:]))
    if bad:
        r2 = run_tlc(module, cfg, workers=workers, timeout=enumerate_cap, env=e, files=files,
                     extra_args=["-continue"])
        r2.output = r2.output[:20_000_000]
        b2, n2 = _bad_indices(r2.output, var)
        for k in b2:
            bad.add(k)
            names.setdefault(k, set()).update(n2[k])
        res.output += "\n" + r2.output
        res.distinct = max(res.distinct, r2.distinct)
        res.generated = max(res.generated, r2.generated)
    res.bad_names = names
    return res, sorted(bad)


# --------------------------------------------------------------------------- standard flow

def last_index(res_output, tr, var_tr="tr", var_i="i"):
    """Position `i` reached in the violating behaviour of trace number `tr` (if printed)."""
    best = None
    for chunk in re.split(r"Error: Invariant \S+ is violated", res_output)[1:]:
        m = re.search(r"^(?:/\\ )?%s = (\d+)" % var_tr, chunk, re.M)
        if m and int(m.group(1)) == tr:
            for mi in re.finditer(r"^(?:/\\ )?%s = (\d+)" % var_i, chunk, re.M):
                best = int(mi.group(1))
    return best


def flow(ck, *, mcs, sub, trace_module, trace_cfg, trace_file, var="tr", key_of=None,
         describe=None, nontrivial=None, distinct_key=None, selftest=None, drive_args=None,
         replay_rows=None, mc_module=None, workers=8, drive_timeout=7200, tlc_timeout=5400):
    """The common shape of a check:
       A  run each exhaustive config in `mcs` [(module, cfg, kwargs)] — must pass (spec-level);
       C  run harness sub-command `sub` on the real code -> ndjson; TLC validates every line
          against `trace_module`; each rejected line is an observation of the real code that the
          spec forbids -> ck.observe(key, ...).
       selftest(rows) -> mutated rows that MUST be rejected (binding is live), thorough tier."""
    for module, cfg, kw in mcs:
        r = run_tlc(module, cfg, **kw)
        require_tlc_ok(r, cfg)
        ck.add_tlc(cfg, r)
    binary = build_harness()
    with Scratch("verif-%s-" % ck.pid.lower()) as d:
        trace = os.path.join(d, trace_file)
        if replay_rows is None:
            rc, out = run_drive(binary, sub, ["-out", d, "-tier", ck.tier, "-seed", ck.seed] + (drive_args or []),
                                timeout=drive_timeout)
            tail = out.strip().splitlines()
            if tail:
                log("[drive] " + tail[-1])
        else:
            write_ndjson(trace, replay_rows)
        rows = read_ndjson(trace)
        if not rows:
            raise MachineryError("harness produced no observations")
        res, bad = validate_rows(trace_module, trace_cfg, trace, var=var, workers=workers, timeout=tlc_timeout)
        ck.add_tlc(trace_cfg, res)
        ck.traces += len(rows)
        ck.evaluations += len(rows)
        for r in rows:
            if nontrivial is None or nontrivial(r):
                ck.add_distinct(distinct_key(r) if distinct_key else json.dumps(r, sort_keys=True)[:400])
        step = max(1, len(rows) // 4)
        for r in rows[::step][:4]:
            ck.add_sample(_shorten(r))
        groups = {}
        for i in bad:
            r = rows[i - 1]
            k = key_of(r) if key_of else "rejected"
            groups.setdefault(k, []).append(i)
        for k, idxs in groups.items():
            r = rows[idxs[0] - 1]
            pos = last_index(res.output, idxs[0], var_tr=var)
            desc = "%s: real-code observation rejected by %s (%d lines; invariants %s%s); first: %s" % (
                k, trace_module, len(idxs), sorted(res.bad_names.get(idxs[0], [])),
                (", at event %s" % pos) if pos is not None else "",
                (describe(r) if describe else json.dumps(_shorten(r)))[:600])
            ck.observe(k, desc, dict(sub=sub, rows=[rows[j - 1] for j in idxs[:10]]))
        if selftest and ck.tier == "thorough" and replay_rows is None:
            muts = selftest(rows)
            if muts:
                st = os.path.join(d, "selftest.ndjson")
                write_ndjson(st, muts)
                r2, bad2 = validate_rows(trace_module, trace_cfg, st, var=var, workers=workers, timeout=tlc_timeout)
                ck.notes["selftest"] = dict(mutated_traces=len(muts), rejected=len(bad2))
                if len(bad2) != len(muts):
                    raise MachineryError("binding self-test failed: %d corrupted traces but only %d rejected" % (
                        len(muts), len(bad2)))
    return rows


def _shorten(r, n=12):
    if isinstance(r, dict):
        return {k: _shorten(v, n) for k, v in r.items()}
    if isinstance(r, list):
        return [_shorten(x, n) for x in r[:n]] + (["...(%d more)" % (len(r) - n)] if len(r) > n else [])
    return r


def std_replay(mod_run, path, seed):
    rp = json.load(open(path))
    return mod_run("quick", seed, replay_rows=rp["replay"]["rows"])
