#!/usr/bin/env python3
"""Regenerates /verif/MANIFEST.json from the table below. A property is claimed iff its check
module lib/props/<id>.py exists; everything else is listed under not_applicable with the reason."""
import json
import os
import subprocess

VERIF = os.path.dirname(os.path.dirname(os.path.abspath(__file__)))

BASELINE = ("cd /repo && GOFLAGS=-mod=mod GOPROXY=off GOSUMDB=off GOTOOLCHAIN=local "
            "go test -json -vet=off -count=1 -timeout 25m ./...")

# id -> (category, technique, level text, level note, design ref)
P = {
 "C01": ("model_checking",
         "TLA+ ProgressStats (TLC exhaustive + 2 mutant configs refuted) ; every yield-point schedule of recorders/snapshot/totals executed on the real progress.Stats+run.Result (cooperative scheduler, DFS) and validated by TLC (Trace_ProgressStats) ; whole Run.Do traces validated against F1Run (C01 clauses)",
         "All interleavings of recorders and collectors are model-checked at atomic-operation grain for small bounds; TLC-generated schedules (including the forbidden lost-update ones of the read-then-reset mutant configuration) are forced onto the real progress.Stats via the ps.* yield hooks, and whole Run.Do traces in every trigger mode are validated against the F1Run conservation invariants.",
         "Go atomics are sequentially consistent; cooperative schedules explore interleavings at hook grain; whole runs observe through the scenario function, Result and a private Prometheus registry.",
         "DESIGN.md §6 C01"),
 "C02": ("model_checking",
         "TLA+ TriggerPool (TLC exhaustive, liveness, mutant refuted) ; cooperative schedules of the real TriggerPool validated arrival-by-arrival against TriggerPool.tla's own actions (Trace_TriggerPool) and against F1Run's ledger clauses ; free-running tick-storm stress and whole-run traces",
         "Every interleaving of ticker, workers, stop goroutine and canceller is model-checked with a per-tick ledger; behaviours chosen by TLC are executed step by step on the real pool with state compared after each action, and randomly scheduled real executions are validated against the spec.",
         "Cond/atomic/context semantics are modelled; the cond-wait condition (two loads) is one step at hook grain; LateTick deviation named in the spec.",
         "DESIGN.md §6 C02"),
 "C03": ("model_checking",
         "TLA+ TriggerPool/ContinuousPool (TLC exhaustive incl. liveness ExactlyN) ; whole Run.Do traces (limits x concurrency x modes, contention runs with 32 busy workers, file-mode stage boundaries) validated by TLC against F1Run (C03 clauses)",
         "Ceiling, uniqueness and gaplessness are invariants of the pool specs checked exhaustively; ids observed by the scenario function in real runs over modes x limits x concurrency are validated event by event.",
         "Free-running runs observe ids inside the scenario function; 'exactly N' only asserted when the run ended by the limit.",
         "DESIGN.md §6 C03"),
 "C04": ("model_checking",
         "TLA+ TriggerPool/ContinuousPool (TLC exhaustive incl. liveness AllWorkersBusy) ; whole-run traces (every start/end with handle) + rendezvous runs + cooperative idle-with-pending clause + free-running all-workers-usable stress, validated by TLC against F1Run (C04 clauses)",
         "Upper bound and handle exclusivity are invariants checked on every event of real runs; the lower bound is decided by a rendezvous scenario that completes only if all workers execute simultaneously.",
         "Harness in-flight set is a lower bound of the true one (sound for the upper-bound check).",
         "DESIGN.md §6 C04"),
 "C05": ("model_checking",
         "TLA+ RunLifecycle (RWMutex wedge), RateRunner, pool Termination (TLC exhaustive + liveness, 2 mutants refuted) ; whole Run.Do traces x endings with watchdog and goroutine dump, negative replays (progress wedge, slow stop goroutine) validated by TLC against F1Run (C05 clauses)",
         "Termination and quiescence for every ending are model-checked with Go's writer-preferring RWMutex; the forbidden late-progress-tick behaviour is attempted on the real Run.Do; whole runs over modes x endings are validated for deadlines, quiescence and goroutine leaks.",
         "Wall-clock clauses are one-sided with >= 1 s slack; leaks reported only for goroutines with f1 frames.",
         "DESIGN.md §6 C05"),
 "C06": ("model_checking",
         "TLA+ Lifecycle as executable oracle: TLC enumerates/simulates programs with the required event log; each replayed on the real Run.Do and compared ; whole-run traces validated against F1Run (C06 clauses)",
         "The lifecycle (setup once, LIFO cleanups exactly once, per-cleanup recovery, teardown last, failure routing) is a state machine whose behaviours TLC enumerates for all small programs; the real code must produce exactly the specified event log.",
         "Cleanups registered from inside cleanups and failures raised by goroutines outliving their body are outside the statement and not generated.",
         "DESIGN.md §6 C06"),
 "C07": ("model_checking",
         "TLA+ Lifecycle: TLC-generated programs (fail/failnow/panic kinds rotated over 19 concrete ways) replayed on the real Run.Do, body events and outcome counts compared ; F1Run clean-start clause on whole runs",
         "Every body behaviour kind (Fail/FailNow/Error/Fatal/assertions/panic values/runtime errors) in every position is executed on the real T and ActiveScenario and compared with the spec's outcome; multi-worker runs with planned outcomes are validated per iteration.",
         "Process death is observed by running in a child process.",
         "DESIGN.md §6 C07"),
 "C08": ("model_checking",
         "TLA+ Verdict operators: TLC exhaustive theorems on the table + real Result.Failed()/CLI observations validated row by row by TLC",
         "The documented rule is an exact integer TLA+ operator; TLC proves its design theorems on the full small table and evaluates it on every observation of the real Result.Failed() (full table + random large counts at the percentage boundary) and of the real CLI error.",
         "TLC integers exact below 2^31; CLI rows rely on the harness scenario failing exactly the planned iterations.",
         "DESIGN.md §6 C08"),
 "C09": ("model_checking",
         "TLA+ GoTicker (TLC exhaustive: cadence) ; whole rate-mode Run.Do traces: every evaluation (hook iw.eval) and published tick (hook tp.send.locked) validated by TLC against F1Run (C09 clauses)",
         "The ticker (1-slot channel, drops) and the evaluate-then-publish loop are model-checked; real runs log every rate evaluation (monotonic time, value) and every published tick size (hook), and TLC checks the cadence bound and value equality on each trace.",
         "Upper bound only; uses the code's own monotonic call times.",
         "DESIGN.md §6 C09"),
 "C10": ("model_checking",
         "TLA+ Staged spec (cursor state machine, exact rational interpolation): TLC exhaustive + real calculator query logs validated by TLC",
         "The staged/ramp calculators are specified as a cursor state machine with the allowed result set per query in exact integers; TLC checks the spec's own theorems on all small stage lists and validates logged (t, rate) sequences of the real calculators.",
         "Float interpolation is allowed one unit of slack, as the statement says.",
         "DESIGN.md §6 C10"),
 "C11": ("model_checking",
         "TLA+ GaussCarry spec (remainder carry, window/weight selection): TLC exhaustive + real calculator outputs over whole windows validated by TLC",
         "Carry conservation, non-negativity, weight ratios and peak position are checked by TLC on outputs of the real calculator over >= len(weights)+1 windows; the absolute-volume tolerance constant is computed from the inputs by the harness (TLC has no exp/erfc).",
         "One transcendental tolerance per trace comes from Go's math package, not from the specification.",
         "DESIGN.md §6 C11"),
 "C12": ("model_checking",
         "TLA+ Distribution spec: TLC exhaustive + TLC-enumerated (N, rates, draws) replayed on real api.NewDistribution + random long cycles validated by TLC",
         "Per-cycle conservation, single evaluation per cycle, evenness and clamping are invariants of the spec; every small case is replayed on the real distributor with scripted rate and random sources and long random cycles are validated by TLC.",
         "Claimed exact only for N < 10^7 sub-ticks.",
         "DESIGN.md §6 C12"),
 "C13": ("model_checking",
         "TLA+ Jitter spec in integers (carry exactness, per-value interval, closed-form balance bound): TLC exhaustive + real WithJitter logs validated by TLC",
         "The jitter step relation is stated in scaled integers; TLC explores all draws for small rates and validates every (rate, output) pair logged from the real WithJitter with the real random source.",
         "One unit of float slack per value.",
         "DESIGN.md §6 C13"),
 "C14": ("model_checking",
         "TLA+ RateGrammar/ConfigPlan specs: TLC enumerates all strings up to a length incl. near-misses and all field-presence subsets; each fed to the real parsers/constructors (recover) and validated by TLC; accepted triggers are started",
         "The meaning of well-formed spellings and the runnable-trigger predicate are TLA+ operators; the exhaustive bounded input space plus grammar-guided random inputs are run through the real parsers and flag/YAML front ends, and TLC judges each observation (no panic, positive interval, meaning as spelled).",
         "Acceptance of ill-formed strings is never judged, only no-panic and positive interval.",
         "DESIGN.md §6 C14"),
 "C15": ("model_checking",
         "TLA+ ConfigPlan spec (keep rule, defaults, totals, sequential stages with environment): TLC exhaustive + enumerated configs replayed on real ParseConfigFile + file-mode run traces validated by TLC",
         "The plan (unfinished stages in order, defaults applied, total duration, limits) is computed by the spec for every small config and boundary instant and compared with the real parser; run-time stage order and environment are validated on traces of real file-mode runs.",
         "Environment sampled at trigger events, not inside iterations.",
         "DESIGN.md §6 C15"),
 "C16": ("model_checking",
         "TLA+ Metrics (TLC exhaustive over consecutive runs) ; Registry.Gather() of 1-3 consecutive real runs with generated static labels validated by TLC against F1Run (C16 clauses)",
         "Reset/record/gather is a small state machine; real consecutive Run.Do runs with generated label maps are gathered and TLC checks counts per label against the run's own Result and label pairing.",
         "Observes through prometheus Registry.Gather().",
         "DESIGN.md §6 C16"),
 "C17": ("model_checking",
         "TLA+ ProgressStats spec in sequential configuration: TLC exhaustive over record/snapshot sequences + real progress.Stats sequences validated by TLC + timed whole runs",
         "Lifetime/period aggregation is specified exactly; every short record/snapshot sequence is checked against the real progress.Stats and long random ones are validated by TLC; the measurement clause is checked on single-worker runs with sleeps.",
         "Upper-bound timing clauses only against sleeps >= 200 ms with 100 ms slack; inside the slack = inconclusive.",
         "DESIGN.md §6 C17"),
 "C18": ("model_checking",
         "TLA+ RateRunner (TLC exhaustive + liveness, mutant refuted) ; negative replay (park a due tick through hook rr.tick, call Stop) and random op sequences on the real raterun.Runner validated by TLC (Trace_RateRunner)",
         "Runner lifecycle is model-checked with Restart/Stop/Cancel at every point; the forbidden 'function runs after Stop returned' behaviour is attempted on the real Runner by parking its goroutine on a due tick; random operation sequences are validated against the spec.",
         "time.Ticker modelled (1-slot channel).",
         "DESIGN.md §6 C18"),
 "C19": ("other",
         "TLA+ Report relations evaluated by TLC on rendered summaries/progress lines (text template + slog JSON) of the real views and Result; F1Run summary clause on whole runs",
         "Generated result/progress data are rendered by the real templates and slog handlers; the numbers are extracted and TLC checks the relations (counts equal, banner = verdict, percentages are the share of all iterations). There is no interesting state space, hence level 'other'.",
         "Scrapers are ordinary Go code; percentages checked with counts < 2^20.",
         "DESIGN.md §6 C19"),
 "C20": ("model_checking",
         "TLA+ Lifecycle spec with component actions: TLC enumerates all assignments of behaviours to <= 3 components; each replayed on real f1.CombineScenarios through ActiveScenario; random larger assignments validated by TLC",
         "Order, single setup, handle identity and stop-in-this-iteration-only are properties of the Lifecycle spec; every small assignment is executed on the real CombineScenarios and compared with the spec's event log.",
         "Handle identity observed as pointer equality.",
         "DESIGN.md §6 C20"),
}


def hook_commits():
    try:
        out = subprocess.run(["git", "-C", "/repo", "log", "--format=%h %s"], stdout=subprocess.PIPE, text=True).stdout
        return [ln.split()[0] for ln in out.splitlines() if ln.split(" ", 1)[1].startswith("verif hooks")]
    except Exception:
        return []


# what was added to each check after the first full build (appended to the technique text)
EXTRA = {
 "C01": "unbounded inductive proof of collect-by-swap conservation with Apalache (CollectInd; the original read-then-reset collect refuted); command-line runs also as the SECOND run on their F1 instance and as a component of CombineScenarios; executed iterations missing from the final result (users stages followed by a rate stage)",
 "C02": "unbounded inductive proof of the pending-request ledger with Apalache (JobLedgerInd; give-back mutant refuted); schedules the mechanism spec cannot follow are diagnostics (CONFORMANCE-DRIFT), the verdict is the spec's invariants and F1Run's ledger; count-based limit clause with the configured concurrency; command-line runs also as the SECOND run on their F1 instance and as a component of CombineScenarios",
 "C03": "cooperative schedules of the real ContinuousPool (cpool) validated by F1Run and replayed as ACTIONS of ContinuousPool.tla (Trace_ContinuousPool, InvC03); ids re-read at body end; 8 file-stage boundaries under load; ids KEPT by the scenario compared after the run; whole runs also through the real command line (F1.ExecuteWithArgs: flag parsing, run_cmd plumbing, run file <path>, SIGINT as the cancellation); command-line runs also as the SECOND run on their F1 instance and as a component of CombineScenarios; --max-iterations on a run file command line: refused or honoured",
 "C04": "cooperative schedules of the real ContinuousPool incl. all-busy rendezvous (cpool, Trace_ContinuousPool InvC04); stress with losing takers before a full tick; command-line runs also as the SECOND run on their F1 instance and as a component of CombineScenarios; default --concurrency after an earlier run that set it",
 "C05": "every whole run replayed as ACTIONS of the generative RunPhases spec (Trace_RunPhases, six end-to-end paths must be exercised); cooperative users-pool schedules incl. a pool started on a dead context (Trace_ContinuousPool InvC05, mutant Mut_ContinuousPool_precancel refuted); order-based clause 'cancel() returned during setup => nothing starts'; whole runs also through the real command line (F1.ExecuteWithArgs: flag parsing, run_cmd plumbing, run file <path>, SIGINT as the cancellation); command-line runs also as the SECOND run on their F1 instance and as a component of CombineScenarios; limits.max-duration shorter than the stages through run file",
 "C06": "every whole run replayed as ACTIONS of RunPhases (setup / setup cleanups / summary order); cancellation / Ctrl-C during a setup that then fails; whole runs also through the real command line (F1.ExecuteWithArgs: flag parsing, run_cmd plumbing, run file <path>, SIGINT as the cancellation); command-line runs also as the SECOND run on their F1 instance and as a component of CombineScenarios; failing setup / setup cleanup with failure tolerances configured",
 "C07": "helper goroutines guarded by testing.CheckResults(t, done); FailNow/panic inside t.Time; quiet vs listening logger alternated; two helper goroutines reporting on one channel; exported metric under the wrong outcome",
 "C08": "the ten verdict theorems for ALL counts and options by Apalache (VerdictInd; >= mutant refuted); every exact boundary up to 400/2500 iterations; CLI rows with dropped iterations; Ctrl-C during a failing / healthy setup through the real CLI; CLI rows fresh and as second run on the instance",
 "C09": "stalled-trigger runs; configured rate evaluated at most once per configured interval under sub-tick distributions (scripted rates); fractional tick intervals; per-stage cadence in config-file runs",
 "C10": "interpolation theorem for all naturals by Apalache (StagedInd; mutant refuted); hour/minute units with targets up to 10^6; ramps per N units; zero-padded numbers; stage targets below zero (also in MC_Staged*); profiles through the command line as second run (defaults of omitted flags); staged step profile under a stalled trigger goroutine on whole runs (clause C10 of F1Run)",
 "C11": "carry relations inductive by Apalache (GaussCarryInd); windows visited out of order, tick phase, zero weights; weight lists written with empty entries; the profile through --distribution random/regular; volume per window through the command line as second run on an instance",
 "C12": "fixed-point accumulator conserves every cycle for all n < Q and all rates by Apalache (DistributionInd; n up to 3Q refuted); negative-rate cycles; sub-tick interval and cycle totals of a staged stage through the config-file parser; default vs stage distribution in a config file",
 "C13": "balance bound inductive for every jitter below 100 % and every rate by Apalache (JitterInd; tighter bound refuted); jitter through the config-file parser (explicit 0 vs default); the jittered rate through the sub-tick distributions",
 "C14": "YAML and CLI field x level x bad-value matrices in child processes, incl. sub-tick distributions with profiles below zero; the whole range of --max-iterations; --startTime values",
 "C15": "jitter inheritance through Trace_ConfigJitter (explicit 0 kept); stage loop held past the deadline; failure tolerances of the limits section through run file verdict rows; a stage lasts its configured duration",
 "C16": "failing setup between two runs and different scenario names on one metrics instance; Metrics.tla models the push gateway (POST mutant refuted); runs pushing to a PUT/POST-faithful gateway (Trace_Gateway); a run ending while a periodic push waits for a slow gateway",
 "C17": "min*count <= sum <= max*count for any sequence of durations by Apalache (AggregateInd; mutant refuted); second run of a scenario on one metrics instance; op sequences through run.Result as a progress tick makes them; period figures as the rendered progress line states them",
 "C18": "Stop immediately after Start; one carried tick allowed after Restart; whole-run clause with a slow progress sink; restart attribution by the runner's own processing point; stalled progress sink; deterministic restart-in-first-schedule traces",
 "C19": "results carrying two and three errors; summary banner vs verdict on whole runs with a failing teardown; a failing run with a profile requested",
 "C20": "FailNow / panic inside t.Time in components; lifecycle replays logging to a JSON file",
}


def main():
    checks = []
    na = []
    for pid in sorted(P):
        cat, tech, text, note, ref = P[pid]
        if pid in EXTRA:
            tech = tech + " ; " + EXTRA[pid]
        if os.path.exists(os.path.join(VERIF, "lib", "props", pid.lower() + ".py")):
            checks.append({
                "property_id": pid,
                "quick_cmd": "./bin/check %s --tier quick" % pid,
                "thorough_cmd": "./bin/check %s --tier thorough" % pid,
                "evidence_file": "/verif/evidence/%s.json" % pid,
                "replay_cmd_template": "./bin/check %s --replay {path}" % pid,
                "engine": "tlc+go-harness",
                "level_claimed": {"category": cat, "text": text, "design_ref": ref},
                "level_note": note,
                "technique": tech,
            })
        else:
            na.append({"property_id": pid,
                       "reason": "check not built yet in this round (planned with the TLA+ technique, see %s); not claimed until its spec, binding and self-test exist" % ref})
    m = {
        "version": 1,
        "setup_cmd": "./bin/check --setup",
        "hooks": {
            "guard": "verif",
            "enable": "go build/test -tags verif (harness module /verif/harness with replace => /repo)",
            "baseline_off_cmd": BASELINE,
            "source_commits": hook_commits(),
            "add_only": True,
        },
        "engines": [
            {"name": "tlc-exhaustive", "path": "spec/MC_*.cfg", "serves_properties": [c["property_id"] for c in checks],
             "kind_free_text": "TLC 1.8 exhaustive model checking of the TLA+ specifications for small constants"},
            {"name": "trace-validation", "path": "spec/Trace_*.tla", "serves_properties": [c["property_id"] for c in checks],
             "kind_free_text": "real executions recorded as ndjson by harness/cmd/drive and validated by TLC against the specifications"},
            {"name": "mbt-replay", "path": "harness/cmd/drive", "serves_properties": [c["property_id"] for c in checks],
             "kind_free_text": "TLC-generated behaviours/programs stepped through the real code with projections compared"},
        ],
        "checks": checks,
        "not_applicable": na,
        "notes": "All checks rebuild the harness against /repo's working tree with -tags verif. Specs in /verif/spec are the main deliverable; see DESIGN.md.",
    }
    with open(os.path.join(VERIF, "MANIFEST.json"), "w") as f:
        json.dump(m, f, indent=1)
    print("MANIFEST: %d checks, %d not_applicable" % (len(checks), len(na)))


if __name__ == "__main__":
    main()
