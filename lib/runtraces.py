"""Whole-run traces (harness sub-command `runs`) validated by TLC against spec/F1Run.tla.
Shared by the run-level clauses of C01..C07, C09, C15, C16."""
import json
import os
import re
import subprocess
import vlib


def collect(binary, tier, seed, workdir, parts=6, only=None):
    procs = []
    for k in range(parts):
        d = os.path.join(workdir, "p%d" % k)
        os.makedirs(d, exist_ok=True)
        args = [binary, "runs", "-out", d, "-tier", tier, "-seed", str(seed), "-x", "part=%d/%d" % (k, parts)]
        if only:
            args += ["-x", "only=" + only]
        procs.append((d, subprocess.Popen(args, cwd=vlib.HARNESS, env=vlib.env_with(), stdout=subprocess.PIPE,
                                          stderr=subprocess.STDOUT, text=True)))
    rows = []
    for d, p in procs:
        try:
            out, _ = p.communicate(timeout=1500)
        except subprocess.TimeoutExpired:
            p.kill()
            raise vlib.MachineryError("runs driver timed out")
        if p.returncode != 0:
            raise vlib.MachineryError("runs driver exited %d:\n%s" % (p.returncode, out[-3000:]))
        f = os.path.join(d, "runs.ndjson")
        if os.path.exists(f):
            rows += vlib.read_ndjson(f)
    return rows


def whys(output, pid):
    """tr -> set of failing clause names of property pid, from the counterexample states."""
    out = {}
    for ch in re.split(r"Error: Invariant \S+ is violated", output)[1:]:
        m = re.search(r"^(?:/\\ )?tr = (\d+)", ch, re.M)
        if not m:
            continue
        k = int(m.group(1))
        flat = re.sub(r"\s+", " ", ch)          # TLC wraps long records over several lines
        for mm in re.finditer(r'\[ ?p \|-> "(\w+)", c \|-> "([^"]*)" ?\]', flat):
            if mm.group(1) in (pid, "MACHINERY"):
                out.setdefault(k, set()).add(mm.group(1) + ":" + mm.group(2))
        for mm in re.finditer(r'\[ ?c \|-> "([^"]*)", p \|-> "(\w+)" ?\]', flat):
            if mm.group(2) in (pid, "MACHINERY"):
                out.setdefault(k, set()).add(mm.group(2) + ":" + mm.group(1))
    return out


def check(ck, pid, *, only=None, parts=6, rows=None, nontrivial=None):
    binary = vlib.build_harness()
    with vlib.Scratch("verif-runs-") as d:
        if rows is None:
            rows = collect(binary, ck.tier, ck.seed, d, parts=parts, only=only)
        if not rows:
            raise vlib.MachineryError("no run traces produced")
        f = os.path.join(d, "all.ndjson")
        vlib.write_ndjson(f, rows)
        res, bad = vlib.validate_rows("F1Run", "Trace_F1Run_%s.cfg" % pid, f, var="tr", workers=8, timeout=1500)
        ck.add_tlc("Trace_F1Run_%s.cfg" % pid, res)
        if pid in ("C05", "C06") and only is None:
            phases(ck, pid, rows, f)
    ck.traces += len(rows)
    ck.evaluations += len(rows)
    for r in rows:
        if nontrivial is None or nontrivial(r):
            ck.add_distinct("run:%s:%s:%s" % (r["cfg"]["name"], r["cfg"]["conc"], r["cfg"]["maxiter"]) + ":" + str(len(r["ev"])))
    if rows:
        r = rows[len(rows) // 2]
        ck.add_sample(dict(cfg=r["cfg"], events=len(r["ev"]), first=[[e["k"], e["a"], e["b"], e["c"]] for e in r["ev"][:8]]))
    w = whys(res.output, pid)
    groups = {}
    for k in bad:
        for reason in sorted(w.get(k, {"%s:unparsed" % pid})):
            r = rows[k - 1]
            if reason.startswith("MACHINERY"):
                raise vlib.MachineryError("run harness error in %s: %s" % (r["cfg"]["name"], reason))
            groups.setdefault(reason + "@" + r["cfg"]["mode"], []).append(r)
    for key, lst in groups.items():
        r = lst[0]
        brief = dict(cfg=r["cfg"], tail=[[e["k"], e["a"], e["b"], e["c"], e["d"], e["s"][:200]] for e in r["ev"][-8:]])
        ck.observe(key, "%s in %d real run(s); first: %s" % (key, len(lst), json.dumps(brief)[:900]),
                   dict(rows=[dict(cfg=x["cfg"], ev=x["ev"][:400]) for x in lst[:3]]))
    return rows


PHASE_PROP = {"start": "C05", "end": "C05", "timeoutmsg": "C05", "ret": "C05", "endmsg": "C05",
              "setup": "C06", "setupcleanup": "C06", "summary": "C06"}


def phases(ck, pid, rows, trace_file):
    """Every whole run must be a behaviour of the generative specification RunPhases (Run.Do's control flow):
    TLC replays the recorded outputs as specification actions; a refused event is reported under the property
    it belongs to (C05: starts/ends/messages/return, C06: setup, setup cleanups, summary)."""
    res, bad = vlib.validate_rows("Trace_RunPhases", "Trace_RunPhases.cfg", trace_file, var="tr", workers=8, timeout=900)
    ck.add_tlc("Trace_RunPhases.cfg", res)
    # which of the specification's six end-to-end paths the real runs exercised (vacuity guard, in the evidence)
    paths = {}
    for r in rows:
        ks = [e for e in r["ev"] if e["k"] in ("setup", "endmsg", "timeoutmsg")]
        ok = any(e["k"] == "setup" and e["a"] == 1 for e in ks)
        end = next((e["s"] for e in ks if e["k"] == "endmsg"), "-")
        sig = "setup-failed" if not ok else end + ("+timeout" if any(e["k"] == "timeoutmsg" for e in ks) else "")
        paths[sig] = paths.get(sig, 0) + 1
    ck.notes["runphases_paths_exercised"] = paths
    want = {"setup-failed", "maxdur", "maxiter", "interrupt", "maxdur+timeout", "interrupt+timeout"}
    if ck.tier == "thorough" and not want <= set(paths):
        raise vlib.MachineryError("whole-run cases no longer exercise every path of RunPhases: missing %s" % sorted(want - set(paths)))
    refused = {}
    for ch in re.split(r"Error: Invariant \S+ is violated", res.output)[1:]:
        m = re.search(r"^(?:/\\ )?tr = (\d+)", ch, re.M)
        if not m:
            continue
        k = int(m.group(1))
        last = ch.split("\nState ")[-1]
        mb = re.search(r'bad = "([a-z]*)"', last)
        mp = re.search(r'ph = "([a-z]*)"', last)
        ml = re.search(r"\blive = (\d+)", last)
        what = mb.group(1) if mb and mb.group(1) else "incomplete"
        refused.setdefault(k, set()).add((what, mp.group(1) if mp else "?", ml.group(1) if ml else "?"))
    groups = {}
    for k in bad:
        r = rows[k - 1]
        for what, ph, live in sorted(refused.get(k, {("unparsed", "?", "?")})):
            prop = PHASE_PROP.get(what, "C05")
            if prop != pid:
                continue
            groups.setdefault("%s:not-a-behaviour-of-RunPhases(%s-refused-in-phase-%s)@%s" % (pid, what, ph, r["cfg"]["mode"]), []).append((r, live))
    for key, lst in groups.items():
        r, live = lst[0]
        brief = dict(cfg=r["cfg"], in_flight=live, outputs=[[e["k"], e["a"], e["c"], e["s"][:40]] for e in r["ev"]
                                                            if e["k"] in PHASE_PROP or e["k"] in ("cancel", "noreturn")][-14:])
        ck.observe(key, "%s in %d real run(s); first: %s" % (key, len(lst), json.dumps(brief)[:900]),
                   dict(rows=[dict(cfg=x["cfg"], ev=x["ev"][:400]) for x, _ in lst[:3]]))


def cpool_grain(ck, pid, rows, trace_file):
    """Spec-grain validation of the users pool: each cooperative schedule of the real ContinuousPool is replayed as
    ACTIONS of spec/ContinuousPool.tla (Trace_ContinuousPool). The specification's own invariants that state property
    `pid`, evaluated along the real schedule, give the verdict; a schedule the specification cannot follow at all is a
    deviation from the MODEL and is reported as a diagnostic only (F1Run judges the same schedule at property level)."""
    res, bad = vlib.validate_rows("Trace_ContinuousPool", "Trace_ContinuousPool_%s.cfg" % pid, trace_file, var="tr", workers=4, timeout=600)
    ck.add_tlc("Trace_ContinuousPool_%s.cfg" % pid, res)
    for k in bad[:3]:
        r = rows[k - 1]
        ck.observe("%s:users-pool-schedule-violates-ContinuousPool-invariant" % pid,
                   "%s: Inv%s of ContinuousPool.tla fails along a real schedule of the users pool: %s; actions %s" % (
                       pid, pid, r["cfg"]["args"][:200], json.dumps(r.get("arr", [])[-14:])), dict(rows=[r]))
    res2, bad2 = vlib.validate_rows("Trace_ContinuousPool", "Trace_ContinuousPool.cfg", trace_file, var="tr", workers=4, timeout=600)
    ck.add_tlc("Trace_ContinuousPool.cfg", res2)
    ck.notes["users_pool_schedules_followed_by_the_specification"] = "%d of %d" % (len(rows) - len(bad2), len(rows))
    for k in bad2[:3]:
        r = rows[k - 1]
        vlib.log("CONFORMANCE-DRIFT property=%s the real users pool took a step ContinuousPool.tla does not have: %s" % (pid, r["cfg"]["args"][:200]))
    if bad2:
        ck.notes["conformance_drift_ContinuousPool"] = [rows[k - 1]["cfg"]["args"][:200] for k in bad2[:5]]


def extra(ck, pid, sub, fname, describe=None):
    """Run another harness sub-command producing F1Run traces and validate them for property pid."""
    binary = vlib.build_harness()
    with vlib.Scratch("verif-x-") as d:
        rc, out = vlib.run_drive(binary, sub, ["-out", d, "-tier", ck.tier, "-seed", ck.seed], timeout=1800)
        rows = vlib.read_ndjson(os.path.join(d, fname))
        res, bad = vlib.validate_rows("F1Run", "Trace_F1Run_%s.cfg" % pid, os.path.join(d, fname), var="tr", workers=8, timeout=1500)
        if sub == "cpool":
            cpool_grain(ck, pid, rows, os.path.join(d, fname))
    ck.add_tlc("Trace_F1Run_%s.cfg/%s" % (pid, sub), res)
    ck.traces += len(rows)
    ck.evaluations += len(rows)
    for r in rows:
        ck.add_distinct(sub + ":" + r["cfg"]["args"][:300])
    w = whys(res.output, pid)
    groups = {}
    for k in bad:
        r = rows[k - 1]
        if r["err"]:
            raise vlib.MachineryError("%s harness error: %s" % (sub, r["err"]))
        for reason in sorted(w.get(k, {"%s:unparsed" % pid})):
            groups.setdefault(reason + "@" + r["cfg"]["name"], []).append(r)
    for key, lst in groups.items():
        r = lst[0]
        ck.observe(key, "%s in %d %s trace(s); first: %s" % (key, len(lst), sub, json.dumps(
            dict(args=r["cfg"]["args"], ev=[[e["k"], e["a"], e["b"], e["d"]] for e in r["ev"][:60]]))[:1200]),
            dict(rows=lst[:3]))
    return rows
