#!/usr/bin/env python3
"""Write the task files for one round of independent seeding agents.
   seedprompt.py <root> <variant> <Cxx...>   ->  <root>/prompt-Cxx.txt, <root>/out-Cxx/<variant>/, worktree <root>/wt-Cxx
The agents get the property text, the anchor files as candidate areas and one-line summaries of the changes already
tried for that property (so each round explores different sites); nothing under /verif is shown to them."""
import json
import os
import subprocess
import sys

VERIF = os.path.dirname(os.path.dirname(os.path.abspath(__file__)))

T = '''You are helping test a verification framework by *seeding a realistic bug* into a Go project. Work ONLY inside your own scratch git worktree of the project at {root}/wt-{P} (a checkout of form3tech-oss/f1, a Go load-testing framework and CLI). Do not read or write anything under /verif or /repo, and do not look at other directories under {root}. Never commit; leave your change as uncommitted edits in the worktree. NEVER use `git stash` (the stash is shared between worktrees and other agents work concurrently); to toggle your change use `git diff > {root}/out-{P}/cur.diff; git checkout -- .` and `git apply {root}/out-{P}/cur.diff`.

Environment: the sandbox is offline. In every shell call first run: export GOFLAGS=-mod=mod GOPROXY=off GOSUMDB=off GOTOOLCHAIN=local
The project's test suite is run with: cd {root}/wt-{P} && go test -vet=off -count=1 -timeout 25m ./...   (about 15-60 s; a few wall-clock-sensitive tests in internal/run flake occasionally on this loaded machine even on unchanged code - rerun to tell a flake from a real failure).
The code contains calls to `verifhook.Yield(...)`: these are no-op instrumentation points (empty function in the normal build). Ignore them: do not remove, move or rely on them, and keep them where they are relative to the surrounding statements.

The semantic property that should hold for f1 is:

  {P} — {title}
  {statement}

Your task: produce ONE change to the non-test source code of f1 such that it:
  1. breaks the property above (in a way a user relying on the property would be hurt by);
  2. still compiles, and the ENTIRE existing test suite still passes with it;
  3. is realistic — the kind of mistake a maintainer could make in a refactor, optimisation or 'simplification' (wrong comparison, reordered steps, a missing lock/atomic, an off-by-one, state not reset, a value read at the wrong moment, a unit mix-up, two sites that each look fine alone...). Not an obfuscated backdoor, no special-casing of magic values.
  4. needs something SPECIFIC to manifest: a particular interleaving of goroutines, a cancellation or failure at a particular point, a multi-step sequence of operations, an unusual-but-legal input or configuration, a boundary value, or two cooperating sites. It must NOT be exposed immediately by ordinary use.
Candidate areas (the code this property is anchored in): {hint}.{outside}
Changes of the following kinds have ALREADY been tried by others - do something different, at a different site or of a different nature:
{prev}

Also write a demonstration: a Go test file that FAILS (deterministically or with very high probability within a few seconds) with the change applied and PASSES on the unchanged code. It may be a new _test.go file placed in the appropriate package directory of the worktree (it may use internal packages); it is not part of the change itself.

Deliverables — write them to {root}/out-{P}/{V}/ :
  - patch.diff : output of `git -C {root}/wt-{P} diff` containing ONLY the source change (not the demonstration file); it must apply cleanly with `git apply` to a clean checkout of the same commit.
  - the demonstration file, and meta.json : {{"property": "{P}", "summary": "<what was changed>", "why_it_breaks": "<...>", "needs_to_manifest": "<...>", "demo_path_in_tree": "<path of the demo file in the tree>", "demo_cmd": "<exact command, starting with cd {root}/wt-{P} && ...>", "suite_passes_with_change": true, "demo_fails_with_change": true, "demo_passes_without_change": true}}
Verify all three claims yourself (suite with the change; demo with and without the change). Leave the worktree clean (no uncommitted changes, no stray files) when you finish. Your final answer should briefly say what the change is and what you verified.
'''


def main():
    root, variant, pids = sys.argv[1], sys.argv[2], sys.argv[3:]
    props = {}
    for ln in open(os.path.join(VERIF, "properties.jsonl")):
        p = json.loads(ln)
        props[p["id"]] = p
    os.makedirs(root, exist_ok=True)
    for P in pids:
        pr = props[P]
        prev = []
        for d in sorted(os.listdir(os.path.join(VERIF, "seeded"))):
            if d.startswith(P + "-"):
                m = json.load(open(os.path.join(VERIF, "seeded", d, "meta.json")))
                prev.append("  - " + (m.get("summary") or "")[:320].replace("\n", " "))
        hint = ", ".join(pr["anchors"]["files"]) + "; mechanisms: " + "; ".join(
            "%s (%s)" % (m["name"], m["where"]) for m in pr["anchors"].get("mechanism", []))
        outside = ""
        if os.environ.get("SEED_OUTSIDE"):
            outside = (" THIS ROUND: put your change OUTSIDE those files - in a layer between the user and that code (command-line "
                       "flag handling in internal/run/run_cmd.go and pkg/f1, the trigger builders and their flag/option parsing "
                       "under internal/trigger/*, the config-file parser and stage runner, internal/options, internal/envsettings, "
                       "the wiring in internal/run/test_runner.go, internal/run/result.go, internal/ui and internal/run/views, "
                       "pkg/f1/scenarios, ...) - such that the user-visible property above still breaks for a user of the f1 "
                       "binary or of the pkg/f1 API.")
        open(os.path.join(root, "prompt-%s.txt" % P), "w").write(T.format(
            root=root, P=P, V=variant, outside=outside, title=pr["title"], statement=pr["statement"], hint=hint, prev="\n".join(prev)))
        os.makedirs(os.path.join(root, "out-%s" % P, variant), exist_ok=True)
        subprocess.run("git -C /repo worktree add --detach %s/wt-%s HEAD" % (root, P), shell=True,
                       stdout=subprocess.DEVNULL, stderr=subprocess.DEVNULL)
    print("prompts in", root)


if __name__ == "__main__":
    main()
