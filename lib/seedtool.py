#!/usr/bin/env python3
"""Confirm and ingest seeded changes produced by independent sub-agents.

  seedtool.py ingest <Cxx> [A|B]   confirm (scratch worktree of the pinned base commit: demo fails
                                   with patch, passes without; suite passes with patch) and store
                                   under /verif/seeded/<Cxx>-<A|B>/
  seedtool.py run <seed-id> [quick|thorough] [pids...]
                                   apply seeded/<seed-id>/patch.diff to /repo, run the checks of the
                                   given properties (default: the seed's own property), undo.
"""
import json
import re
import os
import shutil
import subprocess
import sys
import time

VERIF = os.path.dirname(os.path.dirname(os.path.abspath(__file__)))
REPO = os.environ.get("VERIF_REPO", "/repo")
BASE = "3a3cd79"
ENV = dict(os.environ, GOFLAGS="-mod=mod", GOPROXY="off", GOSUMDB="off", GOTOOLCHAIN="local")


def sh(cmd, cwd=None, timeout=1800):
    p = subprocess.run(cmd, cwd=cwd, shell=True, env=ENV, stdout=subprocess.PIPE, stderr=subprocess.STDOUT,
                       text=True, errors="replace", timeout=timeout)
    return p.returncode, p.stdout


def ingest(pid, which, srcroot="/tmp/seed", base=None):
    global BASE
    if base:
        BASE = base
    src = "%s/out-%s/%s" % (srcroot, pid, which)
    meta = json.load(open(os.path.join(src, "meta.json")))
    wt = "/tmp/seedchk-%s-%s" % (pid, which)
    sh("git -C /repo worktree remove --force %s" % wt)
    rc, out = sh("git -C /repo worktree add --detach %s %s" % (wt, BASE))
    assert rc == 0, out
    res = {"property": pid, "variant": which}
    try:
        demos = [f for f in os.listdir(src) if f.endswith(".go")]
        dpath = meta.get("demo_path_in_tree", "")
        ddir = os.path.dirname(dpath) if dpath.endswith(".go") else dpath
        # several demos may go to different dirs; trust names listed in meta when possible
        placed = []
        for f in demos:
            target_dir = ddir
            for k, v in meta.items():
                if isinstance(v, str) and f in v and "/" in v and v.endswith(".go"):
                    target_dir = os.path.dirname(v.split()[-1])
            if "e2e" in f and pid == "C07":
                target_dir = "pkg/f1"
            shutil.copy(os.path.join(src, f), os.path.join(wt, target_dir, f))
            placed.append(os.path.join(target_dir, f))
        cmd = meta["demo_cmd"]
        cmd = re.sub(r"/tmp/seed\w*/wt-%s\b" % pid, wt, cmd)
        if "cd " not in cmd:
            cmd = "cd %s && %s" % (wt, cmd)
        # without the change
        rc0, out0 = sh(cmd, cwd=wt)
        res["demo_passes_without_change"] = rc0 == 0
        rc, out = sh("git apply %s/patch.diff" % src, cwd=wt)
        assert rc == 0, "patch does not apply: " + out
        rc1, out1 = sh(cmd, cwd=wt)
        res["demo_fails_with_change"] = rc1 != 0
        # the suite with the change (demo files moved away)
        for p in placed:
            os.rename(os.path.join(wt, p), os.path.join(wt, p) + ".off")
        ok = False
        fails = []
        for attempt in range(3):
            rc2, out2 = sh("go test -vet=off -count=1 -timeout 25m ./...", cwd=wt)
            if rc2 == 0:
                ok = True
                break
            fails.append([ln for ln in out2.splitlines() if ln.startswith(("--- FAIL", "FAIL"))][:6])
        res["suite_passes_with_change"] = ok
        res["suite_attempts"] = attempt + 1
        res["suite_fail_notes"] = fails
        res["demo_cmd"] = meta["demo_cmd"]
        res["demo_files"] = placed
        res["summary"] = meta.get("summary")
        res["why_it_breaks"] = meta.get("why_it_breaks")
        res["needs_to_manifest"] = meta.get("needs_to_manifest")
        res["confirmed_at"] = time.strftime("%Y-%m-%dT%H:%M:%S")
        res["what_i_ran"] = ("scratch worktree of base %s: demo without patch; git apply patch.diff; demo with patch; "
                             "go test -vet=off -count=1 ./... with patch (demo files removed), up to 3 attempts" % BASE)
        good = res["demo_passes_without_change"] and res["demo_fails_with_change"] and ok
        res["kept"] = good
        print(json.dumps({k: res[k] for k in ("property", "variant", "demo_passes_without_change",
                                                "demo_fails_with_change", "suite_passes_with_change", "suite_attempts")}))
        if good:
            dst = os.path.join(VERIF, "seeded", "%s-%s" % (pid, which))
            os.makedirs(dst, exist_ok=True)
            shutil.copy(os.path.join(src, "patch.diff"), dst)
            for f in demos:
                shutil.copy(os.path.join(src, f), dst)
            json.dump(res, open(os.path.join(dst, "meta.json"), "w"), indent=1)
        else:
            print("NOT KEPT", pid, which, out0[-500:] if rc0 else "", out1[-300:] if rc1 == 0 else "")
    finally:
        sh("git -C /repo worktree remove --force %s" % wt)
        shutil.rmtree(wt, ignore_errors=True)


def run(seed_id, tier, pids):
    d = os.path.join(VERIF, "seeded", seed_id)
    meta = json.load(open(os.path.join(d, "meta.json")))
    pids = pids or [meta["property"]]
    rc, out = sh("git -C %s status --porcelain" % REPO)
    assert out.strip() == "", "/repo not clean:\n" + out
    patch = os.path.join(d, "patch.rebased.diff")
    if not os.path.exists(patch):
        patch = os.path.join(d, "patch.diff")
    rc, out = sh("git -C %s apply %s" % (REPO, patch))
    if rc != 0:
        print("PATCH-DOES-NOT-APPLY", seed_id, out[-400:])
        sh("git -C %s reset -q --hard HEAD" % REPO)
        return
    results = {}
    try:
        for pid in pids:
            t0 = time.time()
            rc, out = sh("./bin/check %s --tier %s" % (pid, tier), cwd=VERIF, timeout=7200)
            v = [ln for ln in out.splitlines() if ln.startswith(("VIOLATION", "MACHINERY", "KNOWN-FINDING"))]
            results[pid] = dict(rc=rc, lines=v[:4], wall=round(time.time() - t0, 1))
            print(seed_id, pid, tier, "rc=%d" % rc, "DETECTED" if rc == 1 else ("MISSED" if rc == 0 else "MACHINERY"),
                  v[:2], "%.0fs" % (time.time() - t0), flush=True)
            if rc == 2:
                print(out[-1500:])
    finally:
        sh("git -C %s reset -q --hard HEAD && git -C %s clean -fdq -- internal pkg" % (REPO, REPO))
    # remember the latest verdict per (tier, property) next to the seed
    meta.setdefault("checked", {}).setdefault(tier, {}).update({p: r["rc"] for p, r in results.items()})
    json.dump(meta, open(os.path.join(d, "meta.json"), "w"), indent=1)
    return results


def sweep(tier, only=None):
    """Run every kept seed against its own property's check (plus the extra properties listed below where a
    change is also expected to be caught elsewhere) and write seeded/RESULTS.md."""
    also = {"C01-A": ["C16"], "C05-A": ["C06"], "C06-A": ["C05"], "C11-B": ["C13"], "C01-B": ["C05"], "C16-A": ["C01"],
            "C08-A": ["C06"], "C20-B": ["C07"], "C07-B": ["C04", "C01"], "C03-B": ["C02"], "C09-B": ["C02"]}
    lines = ["# Seeded changes vs checks (tier: %s)\n" % tier,
             "Each change was produced by an independent sub-agent given only the property text, confirmed in a scratch",
             "worktree of the pinned commit (demo fails with it, passes without, suite passes), then applied to /repo,",
             "checked and reverted. `patch.rebased.diff` is the same change re-applied on top of the hook/fix commits.\n",
             "| seed | summary | check | result | wall |", "|---|---|---|---|---|"]
    for sid in sorted(os.listdir(os.path.join(VERIF, "seeded"))):
        d = os.path.join(VERIF, "seeded", sid)
        if not os.path.isdir(d) or (only and sid not in only):
            continue
        meta = json.load(open(os.path.join(d, "meta.json")))
        pids = [meta["property"]] + also.get(sid, [])
        res = run(sid, tier, pids) or {}
        for pid in pids:
            r = res.get(pid, {"rc": "n/a", "wall": 0})
            verdict = {1: "DETECTED", 0: "missed", 2: "machinery"}.get(r["rc"], "patch does not apply")
            lines.append("| %s | %s | %s %s | %s | %ss |" % (sid, (meta.get("summary") or "")[:110].replace("|", "/"), pid, tier, verdict, r["wall"]))
    open(os.path.join(VERIF, "seeded", "RESULTS-%s.md" % tier), "w").write("\n".join(lines) + "\n")


def results(tier="quick"):
    """seeded/RESULTS-<tier>.md from the latest verdict recorded next to every seed (seeded/*/meta.json `checked`)."""
    lines = ["# Seeded changes vs checks (tier: %s)\n" % tier,
             "The latest verdict recorded for every kept change (`seedtool.py run|sweep` writes it into the seed's meta.json).",
             "Each change was produced by an independent sub-agent given only the property text, confirmed in a scratch",
             "worktree of the base commit (demo fails with it, passes without, suite passes), then applied to /repo,",
             "checked and reverted.\n",
             "| seed | summary | check | result |", "|---|---|---|---|"]
    n = det = 0
    for sid in sorted(os.listdir(os.path.join(VERIF, "seeded"))):
        d = os.path.join(VERIF, "seeded", sid)
        if not os.path.isdir(d):
            continue
        meta = json.load(open(os.path.join(d, "meta.json")))
        ch = (meta.get("checked") or {}).get(tier) or {}
        own = meta["property"]
        for pid in [own] + sorted(p for p in ch if p != own):
            if pid not in ch:
                continue
            verdict = {1: "DETECTED", 0: "missed", 2: "machinery"}.get(ch[pid], str(ch[pid]))
            lines.append("| %s | %s | %s %s | %s |" % (sid, (meta.get("summary") or "")[:110].replace("|", "/").replace("\n", " "), pid, tier, verdict))
        n += 1
        det += 1 if ch.get(own) == 1 else 0
    lines.append("\n%d seeded changes; %d detected by their own property's %s check." % (n, det, tier))
    open(os.path.join(VERIF, "seeded", "RESULTS-%s.md" % tier), "w").write("\n".join(lines) + "\n")
    print(lines[-1].strip())


def matrix():
    """Markdown table for DESIGN.md from the verdicts recorded in seeded/*/meta.json."""
    rows = ["| seed | change (one line) | needs | quick tier verdicts (property: detected / missed) |", "|---|---|---|---|"]
    n = det = 0
    for sid in sorted(os.listdir(os.path.join(VERIF, "seeded"))):
        mp = os.path.join(VERIF, "seeded", sid, "meta.json")
        if not os.path.exists(mp):
            continue
        m = json.load(open(mp))
        ck = m.get("checked", {}).get("quick", {})
        own = m["property"]
        verdict = ", ".join("%s: %s" % (p, {1: "**detected**", 0: "missed", 2: "machinery", None: "n/a"}.get(rc, str(rc)))
                            for p, rc in sorted(ck.items(), key=lambda kv: (kv[0] != own, kv[0])))
        if m.get("checked", {}).get("thorough"):
            verdict += "; thorough: " + ", ".join("%s: %s" % (p, {1: "detected", 0: "missed"}.get(rc, str(rc)))
                                                  for p, rc in sorted(m["checked"]["thorough"].items()))
        if m.get("note"):
            verdict += " — see note"
        n += 1
        det += 1 if ck.get(own) == 1 else 0
        rows.append("| %s | %s | %s | %s |" % (sid, (m.get("summary") or "")[:150].replace("|", "/").replace("\n", " "),
                                              (m.get("needs_to_manifest") or "")[:110].replace("|", "/").replace("\n", " "), verdict))
    rows.append("")
    rows.append("%d seeded changes; %d detected by their own property's quick check." % (n, det))
    return "\n".join(rows)


if __name__ == "__main__":
    if sys.argv[1] == "matrix":
        print(matrix())
        sys.exit(0)
    if sys.argv[1] == "results":
        results(sys.argv[2] if len(sys.argv) > 2 else "quick")
        sys.exit(0)
    if sys.argv[1] == "sweep":
        sweep(sys.argv[2] if len(sys.argv) > 2 else "quick", sys.argv[3:] or None)
    elif sys.argv[1] == "ingest":
        pid = sys.argv[2]
        for w in (sys.argv[3:] or ["A", "B"]):
            if os.path.exists("/tmp/seed/out-%s/%s/meta.json" % (pid, w)):
                try:
                    ingest(pid, w)
                except Exception as e:
                    print("INGEST-ERROR", pid, w, repr(e)[:500])
    elif sys.argv[1] == "ingest2":
        # round 2: changes made on top of the hook/fix commits (base = that commit)
        for pid in sys.argv[3:]:
            try:
                ingest(pid, "C", srcroot="/tmp/seed2", base=sys.argv[2])
            except Exception as e:
                print("INGEST-ERROR", pid, repr(e)[:500])
    elif sys.argv[1] == "ingestr":
        # later rounds: seedtool.py ingestr <srcroot> <base-commit> <variant> <Cxx...>
        for pid in sys.argv[5:]:
            try:
                ingest(pid, sys.argv[4], srcroot=sys.argv[2], base=sys.argv[3])
            except Exception as e:
                print("INGEST-ERROR", pid, repr(e)[:500])
    elif sys.argv[1] == "run":
        tier = sys.argv[3] if len(sys.argv) > 3 else "quick"
        run(sys.argv[2], tier, sys.argv[4:])
