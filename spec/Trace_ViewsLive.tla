-------------------------- MODULE Trace_ViewsLive --------------------------
(* C05 (a run always terminates): the progress reporter and the run goroutine share the run's Result while       *)
(* triggering goes on.  RunLifecycle.tla shows what a nested read lock does under Go's writer-preferring RWMutex  *)
(* once a writer waits in between (NeverWedged is violated by its mutant).  Here the real run.Result is driven    *)
(* by the two goroutines' real call patterns, freely; an observation reports whether both kept completing calls.  *)
EXTENDS Integers, Sequences, Json, IOUtils, TLC
Obs == ndJsonDeserialize(IOEnv.TRACE_FILE)
VARIABLE l
Init == l \in 1..Len(Obs)
Next == UNCHANGED l
RowOK(r) == /\ r.deadlocked = FALSE
            /\ r.reporter_rounds > 0 /\ r.run_rounds > 0
Inv == RowOK(Obs[l])
=============================================================================
