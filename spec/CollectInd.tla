----------------------------- MODULE CollectInd -----------------------------
(* The arithmetic core of C01, unbounded (Apalache): one outcome's period counter                       *)
(* (internal/progress/average.go DurationStats) under any number of recorders and snapshots:             *)
(*    Record   = running count += 1                        (one finished iteration)                       *)
(*    Collect  = lifetime += Swap(running, 0)              (fix bd554c8: one atomic swap)                 *)
(* Nothing is lost or double counted:  recorded = lifetime + running  in every reachable state.          *)
EXTENDS Integers
VARIABLES
    \* @type: Int;
    running,
    \* @type: Int;
    lifetime,
    \* @type: Int;
    recorded
Init == running = 0 /\ lifetime = 0 /\ recorded = 0
Record == running' = running + 1 /\ recorded' = recorded + 1 /\ UNCHANGED lifetime
Collect == lifetime' = lifetime + running /\ running' = 0 /\ UNCHANGED recorded
Next == Record \/ Collect
IndInv == recorded = lifetime + running /\ running >= 0 /\ lifetime >= 0
IndInit == running \in Int /\ lifetime \in Int /\ recorded \in Int /\ IndInv
=============================================================================
