SPECIFICATION Spec
CONSTANTS Rec = {r1, r2}  AddsPer = 2  MaxSnaps = 2
  CollectBySwap = TRUE  Locked = TRUE  StopWaits = TRUE
INVARIANTS TypeOK NeverOverCount Conserved
PROPERTIES ResultMonotone Finishes
CHECK_DEADLOCK FALSE
