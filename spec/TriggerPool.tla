---------------------------- MODULE TriggerPool ----------------------------
(* C02 / C03 / C04 (and the pool part of C05) — internal/workers/trigger_pool.go + pool_manager.go *)
(* at the grain of single atomic operations / critical sections.                                    *)
(*   jobCounter      num   : set = Swap, none = Load <= 0, take = Add(-1) >= 0                      *)
(*   ticker          Trigger: ctx check ; Lock ; Swap+Broadcast ; Unlock ; record drops              *)
(*   worker          run   : running? ; none? ; [Lock ; (none && running ? Wait : Unlock)] ; take ;   *)
(*                           NextIteration ; [limit: set(0) ; cancel ; exit] ; body ; loop           *)
(*   stop goroutine        : <-workerCtx.Done ; stopWorkers.Store(true) ; Lock ; Swap(0)+Broadcast ; *)
(*                           Unlock ; record drops                                                   *)
(*   environment           : external cancel / deadline of the worker context                        *)
(* Ghost ledger: requested (published before the stop flag), late (published after it - the named    *)
(* deviation LateTick), started, dropped (tick path), stopDropped (stop path), discarded (limit).    *)
EXTENDS Integers, FiniteSets

CONSTANTS Workers, TickSizes, MaxTicks, MaxIter, AllowCancel,
          BodiesEnd,          \* FALSE: bodies block forever (used for the all-workers-usable liveness check)
          LimitDrains         \* TRUE: the repaired limit path (see LimitSilent); FALSE: set(0) then cancel

VARIABLES num, stopFlag, wcancel, extCancel, mu, waiting, woken,
          wpc, tpc, curN, tdisc, ticks, spc, sdisc,
          iter, ids, limitReached,
          requested, late, started, dropped, stopDropped, discarded
vars == <<num, stopFlag, wcancel, extCancel, mu, waiting, woken, wpc, tpc, curN, tdisc, ticks, spc, sdisc,
          iter, ids, limitReached, requested, late, started, dropped, stopDropped, discarded>>

Pos(x) == IF x > 0 THEN x ELSE 0

Init == /\ num = 0 /\ stopFlag = FALSE /\ wcancel = FALSE /\ extCancel = FALSE /\ mu = "" /\ waiting = {} /\ woken = {}
        /\ wpc = [w \in Workers |-> "loop"] /\ tpc = "idle" /\ curN = 0 /\ tdisc = 0 /\ ticks = 0
        /\ spc = "wait" /\ sdisc = 0 /\ iter = 0 /\ ids = {} /\ limitReached = FALSE
        /\ requested = 0 /\ late = 0 /\ started = 0 /\ dropped = 0 /\ stopDropped = 0 /\ discarded = 0

W(w, l) == wpc' = [wpc EXCEPT ![w] = l]

(* ------------------------------------------------------------------ workers *)
WLoop(w) == /\ wpc[w] = "loop" /\ W(w, IF stopFlag THEN "exit" ELSE "none")
            /\ UNCHANGED <<num, stopFlag, wcancel, extCancel, mu, waiting, woken, tpc, curN, tdisc, ticks, spc, sdisc, iter, ids,
                           limitReached, requested, late, started, dropped, stopDropped, discarded>>
WNone(w) == /\ wpc[w] = "none" /\ W(w, IF num <= 0 THEN "lock" ELSE "take")
            /\ UNCHANGED <<num, stopFlag, wcancel, extCancel, mu, waiting, woken, tpc, curN, tdisc, ticks, spc, sdisc, iter, ids,
                           limitReached, requested, late, started, dropped, stopDropped, discarded>>
WLock(w) == /\ wpc[w] = "lock" /\ mu = "" /\ mu' = w /\ W(w, "cond")
            /\ UNCHANGED <<num, stopFlag, wcancel, extCancel, waiting, woken, tpc, curN, tdisc, ticks, spc, sdisc, iter, ids,
                           limitReached, requested, late, started, dropped, stopDropped, discarded>>
\* for none() && running() { Wait() } : evaluated holding the mutex; Wait releases it atomically
WCond(w) == /\ wpc[w] = "cond" /\ mu = w
            /\ IF num <= 0 /\ ~stopFlag
               THEN /\ waiting' = waiting \cup {w} /\ W(w, "wait")
               ELSE /\ W(w, "take") /\ UNCHANGED waiting
            /\ mu' = ""
            /\ UNCHANGED <<num, stopFlag, wcancel, extCancel, woken, tpc, curN, tdisc, ticks, spc, sdisc, iter, ids,
                           limitReached, requested, late, started, dropped, stopDropped, discarded>>
\* a broadcast woke this waiter: it re-acquires the mutex and re-evaluates the condition
WWake(w) == /\ wpc[w] = "wait" /\ w \in woken /\ mu = "" /\ mu' = w /\ woken' = woken \ {w} /\ W(w, "cond")
            /\ UNCHANGED <<num, stopFlag, wcancel, extCancel, waiting, tpc, curN, tdisc, ticks, spc, sdisc, iter, ids,
                           limitReached, requested, late, started, dropped, stopDropped, discarded>>
WTake(w) == /\ wpc[w] = "take" /\ num' = num - 1 /\ W(w, IF num - 1 >= 0 THEN "next" ELSE "loop")
            /\ UNCHANGED <<stopFlag, wcancel, extCancel, mu, waiting, woken, tpc, curN, tdisc, ticks, spc, sdisc, iter, ids,
                           limitReached, requested, late, started, dropped, stopDropped, discarded>>
\* PoolManager.NextIteration: one atomic add-and-compare
WNext(w) == /\ wpc[w] = "next" /\ iter' = iter + 1
            /\ IF MaxIter > 0 /\ iter + 1 > MaxIter
               THEN \* the request this worker took cannot start because of the limit: discarded silently
                    /\ limitReached' = TRUE /\ discarded' = discarded + 1 /\ W(w, "lim0") /\ UNCHANGED <<ids, started>>
               ELSE /\ ids' = ids \cup {iter + 1} /\ started' = started + 1 /\ W(w, "body") /\ UNCHANGED <<limitReached, discarded>>
            /\ UNCHANGED <<num, stopFlag, wcancel, extCancel, mu, waiting, woken, tpc, curN, tdisc, ticks, spc, sdisc,
                           requested, late, dropped, stopDropped>>
WLim0(w) == /\ wpc[w] = "lim0" /\ discarded' = discarded + Pos(num) /\ num' = 0 /\ W(w, "limc")
            /\ UNCHANGED <<stopFlag, wcancel, extCancel, mu, waiting, woken, tpc, curN, tdisc, ticks, spc, sdisc, iter, ids,
                           limitReached, requested, late, started, dropped, stopDropped>>
WLimC(w) == /\ wpc[w] = "limc" /\ wcancel' = TRUE /\ W(w, "exit")
            /\ UNCHANGED <<num, stopFlag, extCancel, mu, waiting, woken, tpc, curN, tdisc, ticks, spc, sdisc, iter, ids,
                           limitReached, requested, late, started, dropped, stopDropped, discarded>>
WBody(w) == /\ BodiesEnd /\ wpc[w] = "body" /\ W(w, "loop")
            /\ UNCHANGED <<num, stopFlag, wcancel, extCancel, mu, waiting, woken, tpc, curN, tdisc, ticks, spc, sdisc, iter, ids,
                           limitReached, requested, late, started, dropped, stopDropped, discarded>>
Worker(w) == WLoop(w) \/ WNone(w) \/ WLock(w) \/ WCond(w) \/ WWake(w) \/ WTake(w) \/ WNext(w) \/ WLim0(w) \/ WLimC(w) \/ WBody(w)

(* ------------------------------------------------------------------- ticker *)
TStart == /\ tpc = "idle" /\ ticks < MaxTicks /\ \E n \in TickSizes : curN' = n
          /\ tpc' = "ctx" /\ ticks' = ticks + 1
          /\ UNCHANGED <<num, stopFlag, wcancel, extCancel, mu, waiting, woken, wpc, tdisc, spc, sdisc, iter, ids, limitReached,
                         requested, late, started, dropped, stopDropped, discarded>>
\* Trigger: if ctx.Err() != nil return  -- a tick that finds the context done is not a request
TCtx == /\ tpc = "ctx" /\ tpc' = IF wcancel THEN "idle" ELSE "lock"
        /\ UNCHANGED <<num, stopFlag, wcancel, extCancel, mu, waiting, woken, wpc, curN, tdisc, ticks, spc, sdisc, iter, ids,
                       limitReached, requested, late, started, dropped, stopDropped, discarded>>
TLock == /\ tpc = "lock" /\ mu = "" /\ mu' = "T" /\ tpc' = "swap"
         /\ UNCHANGED <<num, stopFlag, wcancel, extCancel, waiting, woken, wpc, curN, tdisc, ticks, spc, sdisc, iter, ids,
                        limitReached, requested, late, started, dropped, stopDropped, discarded>>
\* jobsToExecute.set(n) ; Broadcast   (both under the mutex)
TSwap == /\ tpc = "swap" /\ tdisc' = num /\ num' = curN /\ woken' = woken \cup waiting /\ waiting' = {}
         /\ IF stopFlag THEN late' = late + curN /\ UNCHANGED requested
                        ELSE requested' = requested + curN /\ UNCHANGED late
         /\ tpc' = "unlock"
         /\ UNCHANGED <<stopFlag, wcancel, extCancel, mu, wpc, curN, ticks, spc, sdisc, iter, ids, limitReached, started,
                        dropped, stopDropped, discarded>>
TUnlock == /\ tpc = "unlock" /\ mu' = "" /\ tpc' = "drop"
           /\ UNCHANGED <<num, stopFlag, wcancel, extCancel, waiting, woken, wpc, curN, tdisc, ticks, spc, sdisc, iter, ids,
                          limitReached, requested, late, started, dropped, stopDropped, discarded>>
TDrop == /\ tpc = "drop" /\ tpc' = "idle"
         /\ IF LimitDrains /\ limitReached
            THEN discarded' = discarded + Pos(tdisc) /\ UNCHANGED dropped
            ELSE dropped' = dropped + Pos(tdisc) /\ UNCHANGED discarded
         /\ UNCHANGED <<num, stopFlag, wcancel, extCancel, mu, waiting, woken, wpc, curN, tdisc, ticks, spc, sdisc, iter, ids,
                        limitReached, requested, late, started, stopDropped>>
Ticker == TStart \/ TCtx \/ TLock \/ TSwap \/ TUnlock \/ TDrop

(* ----------------------------------------------------------- stop goroutine *)
SWake == /\ spc = "wait" /\ wcancel /\ spc' = "flag"
         /\ UNCHANGED <<num, stopFlag, wcancel, extCancel, mu, waiting, woken, wpc, tpc, curN, tdisc, ticks, sdisc, iter, ids,
                        limitReached, requested, late, started, dropped, stopDropped, discarded>>
SFlag == /\ spc = "flag" /\ stopFlag' = TRUE /\ spc' = "lock"
         /\ UNCHANGED <<num, wcancel, extCancel, mu, waiting, woken, wpc, tpc, curN, tdisc, ticks, sdisc, iter, ids,
                        limitReached, requested, late, started, dropped, stopDropped, discarded>>
SLock == /\ spc = "lock" /\ mu = "" /\ mu' = "S" /\ spc' = "swap"
         /\ UNCHANGED <<num, stopFlag, wcancel, extCancel, waiting, woken, wpc, tpc, curN, tdisc, ticks, sdisc, iter, ids,
                        limitReached, requested, late, started, dropped, stopDropped, discarded>>
SSwap == /\ spc = "swap" /\ sdisc' = num /\ num' = 0 /\ woken' = woken \cup waiting /\ waiting' = {} /\ spc' = "unlock"
         /\ UNCHANGED <<stopFlag, wcancel, extCancel, mu, wpc, tpc, curN, tdisc, ticks, iter, ids, limitReached, requested,
                        late, started, dropped, stopDropped, discarded>>
SUnlock == /\ spc = "unlock" /\ mu' = "" /\ spc' = "drop"
           /\ UNCHANGED <<num, stopFlag, wcancel, extCancel, waiting, woken, wpc, tpc, curN, tdisc, ticks, sdisc, iter, ids,
                          limitReached, requested, late, started, dropped, stopDropped, discarded>>
\* the repaired stop path does not report leftovers once the limit has been reached
SDrop == /\ spc = "drop" /\ spc' = "done"
         /\ IF LimitDrains /\ limitReached
            THEN discarded' = discarded + Pos(sdisc) /\ UNCHANGED stopDropped
            ELSE stopDropped' = stopDropped + Pos(sdisc) /\ UNCHANGED discarded
         /\ UNCHANGED <<num, stopFlag, wcancel, extCancel, mu, waiting, woken, wpc, tpc, curN, tdisc, ticks, sdisc, iter, ids,
                        limitReached, requested, late, started, dropped>>
Stopper == SWake \/ SFlag \/ SLock \/ SSwap \/ SUnlock \/ SDrop

(* -------------------------------------------------------------- environment *)
Cancel == /\ AllowCancel /\ ~wcancel /\ wcancel' = TRUE /\ extCancel' = TRUE
          /\ UNCHANGED <<num, stopFlag, mu, waiting, woken, wpc, tpc, curN, tdisc, ticks, spc, sdisc, iter, ids, limitReached,
                         requested, late, started, dropped, stopDropped, discarded>>

Next == (\E w \in Workers : Worker(w)) \/ Ticker \/ Stopper \/ Cancel
Fair == /\ \A w \in Workers : WF_vars(Worker(w))
        /\ WF_vars(Ticker) /\ WF_vars(Stopper)
Spec == Init /\ [][Next]_vars /\ Fair

(* ---------------------------------------------------------------- properties *)
AllExited == \A w \in Workers : wpc[w] = "exit"
Quiescent == AllExited /\ spc = "done" /\ tpc = "idle"
InFlight == {w \in Workers : wpc[w] = "body"}

TypeOK == /\ num \in Int /\ mu \in {"", "T", "S"} \cup Workers
          /\ waiting \subseteq Workers /\ woken \subseteq Workers
\* C02: nothing is started or reported twice
NoOverCount == started + dropped + stopDropped + discarded <= requested + late
\* C02: with no tick published after the stop flag, every request is started once, dropped once or
\* (limit only) silently discarded
Conservation == (Quiescent /\ late = 0) => started + dropped + stopDropped + discarded = requested
NoSilentLossWithoutLimit == (Quiescent /\ late = 0 /\ MaxIter = 0) => discarded = 0
\* C02: requests that cannot start solely because the limit was reached are never reported dropped
LimitSilent == (limitReached /\ ~extCancel) => stopDropped = 0
\* C03
Ceiling == MaxIter > 0 => (Cardinality(ids) <= MaxIter /\ \A x \in ids : x <= MaxIter)
Gapless == ids = 1..Cardinality(ids)
StartedMatchesIds == started = Cardinality(ids)
\* C04 (upper bound holds by construction: one body per worker); mutex sanity
MutexOK == (mu \in Workers) => wpc[mu] = "cond"
\* C05 (pool part): once the worker context is done everything terminates
Termination == wcancel ~> Quiescent
\* no waiter is stranded: a parked worker with work published (or stop requested) is eventually woken
NoStrandedWaiter == \A w \in Workers : (wpc[w] = "wait" /\ (stopFlag \/ wcancel)) ~> (wpc[w] # "wait")
\* C03: if ticks keep coming the limit is reached exactly
\* C04: with bodies that never end and one tick of size >= #workers, all workers get to run at once
AllWorkersBusy == <>(\A w \in Workers : wpc[w] = "body")
=============================================================================
