----------------------------- MODULE ConfigPlan -----------------------------
(* C15 — what a YAML config file must be turned into (internal/trigger/file/file_parser.go          *)
(* ParseConfigFile, file_rate.go Rate).                                                              *)
(* Abstract config: a default section and a list of stages; every field is an integer tag or a       *)
(* string, with -1 / "" meaning "omitted".  A stage omitting a field takes the default's; the users  *)
(* concurrency falls back further to the limits' concurrency.                                        *)
(*   fields: dur (ms), mode, rate, dist (0 none / 1 regular), conc, start, end, stg, freq (ms), ptag *)
(* Plan: in file order, exactly the stages whose scheduled end  stageStart + (D_1 + ... + D_k)  is   *)
(* still in the future; all of them when no stage-start is given.  Total duration = sum over ALL      *)
(* stages.  Limits map one-to-one onto the run options.                                               *)
EXTENDS Integers, Sequences

AbsentI(v) == v = -1
AbsentS(v) == v = ""
PickI(s, d) == IF AbsentI(s) THEN d ELSE s
PickS(s, d) == IF AbsentS(s) THEN d ELSE s

\* the effective stage: every omitted field from the default section
Resolve(st, def, limconc) ==
    [dur |-> PickI(st.dur, def.dur), mode |-> PickS(st.mode, def.mode), rate |-> PickI(st.rate, def.rate),
     dist |-> PickI(st.dist, def.dist), conc |-> PickI(PickI(st.conc, def.conc), limconc),
     start |-> PickI(st.start, def.start), end |-> PickI(st.end, def.end), stg |-> PickI(st.stg, def.stg),
     freq |-> PickI(st.freq, def.freq), ptag |-> PickS(st.ptag, def.ptag)]

\* a resolved stage the parser must accept
Valid(r) ==
    /\ ~AbsentI(r.dur) /\ ~AbsentS(r.mode)
    /\ CASE r.mode = "constant" -> ~AbsentI(r.rate) /\ ~AbsentI(r.dist)
         [] r.mode = "users"    -> ~AbsentI(r.conc) /\ r.conc >= 1
         [] r.mode = "ramp"     -> ~AbsentI(r.start) /\ ~AbsentI(r.end) /\ ~AbsentI(r.dist) /\ r.start # r.end /\ r.dur >= 1000
         [] r.mode = "staged"   -> ~AbsentI(r.stg) /\ ~AbsentI(r.freq) /\ ~AbsentI(r.dist) /\ r.freq > 0
         \* gaussian: volume, repeat, peak, weights and standard-deviation are always given by the default section in
         \* the observed configs; the iteration frequency and the distribution may come from either
         [] r.mode = "gaussian" -> ~AbsentI(r.freq) /\ ~AbsentI(r.dist) /\ r.freq > 0
         [] OTHER -> FALSE

\* what can be observed of a kept stage
View(r) == CASE r.mode = "constant" -> [mode |-> "constant", dur |-> r.dur, a |-> r.rate, b |-> r.dist, ptag |-> r.ptag]
             [] r.mode = "users"    -> [mode |-> "users", dur |-> r.dur, a |-> r.conc, b |-> 0, ptag |-> r.ptag]
             [] r.mode = "ramp"     -> [mode |-> "ramp", dur |-> r.dur, a |-> r.start, b |-> r.end, ptag |-> r.ptag]
             [] r.mode = "staged"   -> [mode |-> "staged", dur |-> r.dur, a |-> r.stg, b |-> r.freq, ptag |-> r.ptag]
             [] r.mode = "gaussian" -> [mode |-> "gaussian", dur |-> r.dur, a |-> 0, b |-> r.freq, ptag |-> r.ptag]
             [] OTHER -> [mode |-> "?", dur |-> 0, a |-> 0, b |-> 0, ptag |-> ""]

RECURSIVE CumDur(_, _)
CumDur(rs, k) == IF k = 0 THEN 0 ELSE CumDur(rs, k - 1) + rs[k].dur

\* cfg: [has_start, now_off (now - stageStart, ms), def, limconc, stages]
Resolved(cfg) == [k \in 1..Len(cfg.stages) |-> Resolve(cfg.stages[k], cfg.def, cfg.limconc)]
\* durations/modes must resolve for EVERY stage (they are validated before the skip decision)
CommonValid(cfg) == Len(cfg.stages) >= 1 /\ \A k \in 1..Len(cfg.stages) :
                        ~AbsentI(Resolved(cfg)[k].dur) /\ ~AbsentS(Resolved(cfg)[k].mode)
Keep(cfg, k) == ~cfg.has_start \/ CumDur(Resolved(cfg), k) > cfg.now_off
KeptIdx(cfg) == SelectSeq([k \in 1..Len(cfg.stages) |-> k], LAMBDA k : Keep(cfg, k))
\* only the kept stages are fully parsed, so only they can make the file invalid beyond the common fields
Accept(cfg) == CommonValid(cfg) /\ \A j \in 1..Len(KeptIdx(cfg)) : Valid(Resolved(cfg)[KeptIdx(cfg)[j]])
Plan(cfg) == [j \in 1..Len(KeptIdx(cfg)) |-> View(Resolved(cfg)[KeptIdx(cfg)[j]])]
TotalDuration(cfg) == CumDur(Resolved(cfg), Len(cfg.stages))

(* design theorems, checked on the enumerated table: the kept stages are a suffix (durations >= 0)  *)
IsSuffixPlan(cfg) == \A j \in 1..Len(KeptIdx(cfg)) : KeptIdx(cfg)[j] = Len(cfg.stages) - Len(KeptIdx(cfg)) + j
=============================================================================
