---------------------------- MODULE Verdict ----------------------------
(* C08 — pass/fail verdict of a run (internal/run/result.go Result.Failed,                *)
(* internal/progress/stats.go Snapshot.Iterations/FailedIterationsRate, and the mapping to  *)
(* the CLI error in internal/run/run_cmd.go runCmdExecute).                                 *)
(* The documented rule, in exact integer arithmetic: the failed share is compared by        *)
(* cross-multiplication, so it is total (defined for zero iterations) and exact.            *)
EXTENDS Integers

\* s, f, d : successful / failed / dropped iteration counts of the final result
\* nerr    : number of run errors recorded (setup failed, teardown failed)
\* ign     : ignore-dropped option;  maxF : max-failures;  maxFR : max-failures-rate (percent)
Iterations(s, f, d) == s + f + d

ToleranceExceeded(s, f, d, maxF, maxFR) ==
    \/ maxF = 0 /\ maxFR = 0 /\ f > 0
    \/ maxF > 0 /\ f > maxF
    \/ maxFR > 0 /\ 100 * f > maxFR * Iterations(s, f, d)

Failed(s, f, d, nerr, ign, maxF, maxFR) ==
    \/ nerr > 0
    \/ ~ign /\ d > 0
    \/ ToleranceExceeded(s, f, d, maxF, maxFR)

\* The CLI returns an error exactly when the run is failed.
CmdError(s, f, d, nerr, ign, maxF, maxFR) == Failed(s, f, d, nerr, ign, maxF, maxFR)

-----------------------------------------------------------------------------
(* Exhaustive table: every state is one row. The invariants are design-level theorems. *)
CONSTANTS MaxCount, MaxFSet, MaxFRSet
VARIABLES s, f, d, nerr, ign, maxF, maxFR
vars == <<s, f, d, nerr, ign, maxF, maxFR>>

Init == /\ s \in 0..MaxCount /\ f \in 0..MaxCount /\ d \in 0..MaxCount
        /\ nerr \in 0..2 /\ ign \in BOOLEAN /\ maxF \in MaxFSet /\ maxFR \in MaxFRSet
Next == UNCHANGED vars

V == Failed(s, f, d, nerr, ign, maxF, maxFR)

\* one more failure never turns a failed run into a passed one (rates up to 100 %)
MonotoneInFailures == (maxFR <= 100 /\ V) => Failed(s, f + 1, d, nerr, ign, maxF, maxFR)
\* one more success never turns a passed run into a failed one
MonotoneInSuccess == ~V => ~Failed(s + 1, f, d, nerr, ign, maxF, maxFR)
\* a run with zero iterations and no errors passes, whatever the tolerances
ZeroIterationsPass == (s + f + d = 0 /\ nerr = 0) => ~V
\* errors always fail
ErrorsFail == nerr > 0 => V
\* dropped iterations fail exactly when not ignored (other clauses aside)
DroppedFail == (d > 0 /\ ~ign) => V
\* ignore-dropped only removes the dropped clause
IgnoreOnlyDropped == Failed(s, f, d, nerr, TRUE, maxF, maxFR) =>
                        Failed(s, f, d, nerr, FALSE, maxF, maxFR)
\* with no tolerance configured any failure fails; with a tolerance, f = 0 never exceeds it
NoToleranceStrict == (maxF = 0 /\ maxFR = 0 /\ f > 0) => V
NoFailuresNeverExceed == f = 0 => ~ToleranceExceeded(s, f, d, maxF, maxFR)
\* strictness of the share: exactly maxFR percent passes
ExactShareWithinTolerance ==
    (maxFR > 0 /\ maxF = 0 /\ nerr = 0 /\ (ign \/ d = 0) /\ 100 * f = maxFR * (s + f + d)) => ~V
=============================================================================
