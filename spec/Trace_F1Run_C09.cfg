INIT Init
NEXT Next
INVARIANTS OK_C09 OK_MACHINERY
CHECK_DEADLOCK FALSE
