INIT Init
NEXT Next
INVARIANTS OK_C06 OK_MACHINERY
CHECK_DEADLOCK FALSE
