SPECIFICATION Spec
CONSTANTS
  NComp = 1
  NIter = 3
  SetupProgs <- SmallSetup
  BodyProgs <- SmallBody
  CleanupProgs <- SmallCleanup
INVARIANTS SetupOnceFirst NoIterationAfterFailedSetup IterCleanupsLIFOOnce SetupCleanupsLast TeardownFailureFailsRun Classified ComponentsInOrder 
CHECK_DEADLOCK FALSE
