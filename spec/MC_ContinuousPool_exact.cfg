SPECIFICATION Spec
CONSTANTS Workers = {w1, w2, w3}  MaxIter = 4  AllowCancel = FALSE  BodiesEnd = TRUE  PreCancelled = FALSE  SyncFlag = TRUE
INVARIANTS Ceiling Gapless Unique
PROPERTIES ExactlyN
CHECK_DEADLOCK FALSE
