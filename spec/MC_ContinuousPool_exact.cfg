SPECIFICATION Spec
CONSTANTS ParamSet <- P_3x4  AllowCancel = FALSE  BodiesEnd = TRUE  SyncFlag = TRUE
INVARIANTS Ceiling Gapless Unique
PROPERTIES ExactlyN
CHECK_DEADLOCK FALSE
