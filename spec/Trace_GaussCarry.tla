-------------------------- MODULE Trace_GaussCarry --------------------------
(* {"V":..,"W":..,"n":..,"windows":[{"S":..,"wk":..,"maxv":..,"peakv":..,"minv":..,"tol":..},...]}  *)
EXTENDS Integers, Sequences, Json, IOUtils, TLC
T == ndJsonDeserialize(IOEnv.TRACE_FILE)
VARIABLES tr, i, ok
G == INSTANCE GaussCarry WITH Q <- 1, MaxX <- 0, MaxTicks <- 0, rem <- 0, sumX <- 0, sumOut <- 0, ticks <- 0, lastOut <- 0
Init == tr \in 1..Len(T) /\ i = 0 /\ ok = (T[tr].panicked = FALSE)
Next == /\ i < Len(T[tr].windows) /\ i' = i + 1 /\ UNCHANGED tr
        /\ ok' = G!WindowOK(T[tr].windows[i + 1], T[tr].V, T[tr].W, T[tr].n)
Accepted == ok
=============================================================================
