------------------------- MODULE Trace_RateGrammar -------------------------
EXTENDS RateGrammar, Json, IOUtils, TLC
Obs == ndJsonDeserialize(IOEnv.TRACE_FILE)
VARIABLE l
Init == l \in 1..Len(Obs)
Next == UNCHANGED l
Inv == CASE Obs[l].kind = "rate" -> RateRowOK(Obs[l])
         [] Obs[l].kind = "ramp" -> RampRowOK(Obs[l])
         [] OTHER -> TriggerRowOK(Obs[l])
\* sanity of the specification itself on a few spellings
ASSUME Meaning(<<"5">>) = [rate |-> 5, ms |-> 1000, ns |-> 0]
ASSUME Meaning(<<"1", "0", "/", "s">>) = [rate |-> 10, ms |-> 1000, ns |-> 0]
ASSUME Meaning(<<"3", "/", ".", "5", "s">>) = [rate |-> 3, ms |-> 500, ns |-> 0]
ASSUME Meaning(<<"7", "/", "1", ".", "5", "m">>) = [rate |-> 7, ms |-> 90000, ns |-> 0]
ASSUME Meaning(<<"2", "/", "2", "5", "0", "u", "s">>) = [rate |-> 2, ms |-> 0, ns |-> 250000]
ASSUME Meaning(<<"2", "/", "1", ".", "5", "m", "s">>) = [rate |-> 2, ms |-> 1, ns |-> 500000]
ASSUME WellFormed(<<"5", "/">>) = FALSE
ASSUME WellFormed(<<"5", "/", "-", "1", "s">>) = FALSE
ASSUME WellFormed(<<"1", "/", "0", "s">>)
=============================================================================
