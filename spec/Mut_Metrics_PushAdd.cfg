SPECIFICATION Spec
CONSTANTS MaxRuns = 2  MaxIters = 2  StaticKeys = {"a"}  StaticVal <- MCVal  PushKind = "post"
INVARIANTS GatewayMirrorsRun
CHECK_DEADLOCK FALSE
