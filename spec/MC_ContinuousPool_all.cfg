SPECIFICATION Spec
CONSTANTS ParamSet <- P_all  AllowCancel = TRUE  BodiesEnd = TRUE  SyncFlag = TRUE
INVARIANTS Ceiling Gapless Unique NoStartBeforeAll NothingOnADeadContext
PROPERTIES Termination
CHECK_DEADLOCK FALSE
