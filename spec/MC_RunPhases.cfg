SPECIFICATION Spec
CONSTANT MaxLive = 3
INVARIANTS TypeOK NoIterationWithoutSetup QuietAfterWaiting ReasonGiven TimeoutOnlyAfterStop
PROPERTIES Terminates Forward
