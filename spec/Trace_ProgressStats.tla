------------------------ MODULE Trace_ProgressStats ------------------------
(* Observer form of ProgressStats' properties, evaluated on hook-grain schedules executed on the  *)
(* REAL progress.Stats + run.Result under the cooperative scheduler (harness `c01`).              *)
(* {"nrec":R,"adds":A,"nsnap":S,"ev":[ ["summed",r] | ["counted",r] | ["collect.begin",c] |        *)
(*   ["stored",c,succ,fail] (-1 = not observable: another collector held the mutex) |              *)
(*   ["blocked",c] | ["end","",succ,fail] ]}                                                       *)
(* counted  = a record is complete (its count.Add executed)            -> ghost countIncs          *)
(* begin    = a collector acquired the Result mutex and started CollectLifetime                    *)
(* stored   = the collector stored its snapshot into the Result and released the mutex             *)
EXTENDS Integers, Sequences, Json, IOUtils, TLC
T == ndJsonDeserialize(IOEnv.TRACE_FILE)
VARIABLES tr, i, countIncs, begun, result, ok, active
vars == <<tr, i, countIncs, begun, result, ok, active>>

Init == /\ tr \in 1..Len(T) /\ i = 0 /\ countIncs = 0 /\ begun = [c \in {"P", "M"} |-> 0]
        /\ result = 0 /\ ok = (T[tr]["err"] = "") /\ active = {}

Total == T[tr].nrec * T[tr].adds
Next == /\ i < Len(T[tr].ev)
        /\ LET e == T[tr].ev[i + 1] IN
             /\ i' = i + 1 /\ UNCHANGED tr
             /\ CASE e[1] = "counted" -> /\ countIncs' = countIncs + 1 /\ ok' = TRUE
                                         /\ UNCHANGED <<begun, result, active>>
                  [] e[1] = "collect.begin" ->
                        /\ begun' = [begun EXCEPT ![e[2]] = countIncs]
                        /\ active' = active \cup {e[2]}
                        /\ ok' = (active = {})            \* collectors are serialised by the Result mutex
                        /\ UNCHANGED <<countIncs, result>>
                  [] e[1] = "stored" ->
                        LET shown == e[3] + e[4] IN
                        /\ active' = active \ {e[2]}
                        /\ IF e[3] < 0 THEN ok' = TRUE /\ UNCHANGED result
                           ELSE /\ result' = shown
                                /\ ok' = (/\ shown <= countIncs                \* NeverOverCount
                                          /\ shown >= begun[e[2]]              \* everything completed before the collect began
                                          /\ shown >= result)                  \* ResultMonotone
                        /\ UNCHANGED <<countIncs, begun>>
                  [] e[1] = "end" ->
                        /\ ok' = (/\ e[3] + e[4] = Total /\ countIncs = Total  \* Conserved
                                  /\ e[5] = TRUE)   \* and the lifetime mean/min/max cover exactly the recorded durations
                        /\ result' = e[3] + e[4]
                        /\ UNCHANGED <<countIncs, begun, active>>
                  [] OTHER -> ok' = TRUE /\ UNCHANGED <<countIncs, begun, result, active>>
Accepted == ok
=============================================================================
