SPECIFICATION Spec
CONSTANTS Durations = {1, 2, 5}  MaxOps = 6
INVARIANTS MinMeanMax ShownConsistent
PROPERTIES LifeMonotone
CHECK_DEADLOCK FALSE
