INIT Init
NEXT Next
INVARIANTS OK_C15 OK_MACHINERY
CHECK_DEADLOCK FALSE
