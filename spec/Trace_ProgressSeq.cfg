INIT Init
NEXT Next
INVARIANTS Accepted MinMeanMax
CHECK_DEADLOCK FALSE
