INIT Init
NEXT Next
INVARIANTS OK_C01 OK_MACHINERY
CHECK_DEADLOCK FALSE
