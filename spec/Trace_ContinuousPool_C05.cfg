INIT TInit
NEXT TNext
CONSTANTS ParamSet = {}  AllowCancel = TRUE  BodiesEnd = TRUE  SyncFlag = TRUE
INVARIANTS InvC05
CHECK_DEADLOCK FALSE
