INIT Init
NEXT Next
INVARIANTS OK_MACHINERY OK_C01 OK_C02 OK_C03 OK_C04 OK_C05 OK_C06 OK_C07 OK_C09 OK_C15 OK_C16 OK_C19
CHECK_DEADLOCK FALSE
