INIT Init
NEXT Next
INVARIANT Inv
CHECK_DEADLOCK FALSE
