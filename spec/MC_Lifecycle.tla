---------------------------- MODULE MC_Lifecycle ----------------------------
EXTENDS Lifecycle
\* rich program sets (1 component x 1 iteration, exhaustive)
RichSetup == {<<"ret">>, <<"reg","ret">>, <<"fail","ret">>, <<"reg","reg","ret">>, <<"reg","fail","ret">>,
              <<"fail","reg","ret">>, <<"failnow">>, <<"panic">>, <<"reg","failnow">>, <<"reg","panic">>,
              <<"reg","reg","panic">>, <<"fail","failnow">>}
RichBody  == {<<"ret">>, <<"reg","ret">>, <<"fail","ret">>, <<"reg","reg","ret">>, <<"reg","fail","ret">>,
              <<"fail","reg","ret">>, <<"failnow">>, <<"panic">>, <<"reg","failnow">>, <<"reg","panic">>,
              <<"reg","reg","panic">>, <<"reg","reg","failnow">>, <<"fail","panic">>}
RichCleanup == {<<"ret">>, <<"fail","ret">>, <<"failnow">>, <<"panic">>, <<"regn","ret">>}
\* reduced sets for several iterations on the same worker (Reset / clean start) and components
SmallSetup == {<<"ret">>, <<"reg","ret">>, <<"failnow">>, <<"reg","panic">>}
SmallBody  == {<<"ret">>, <<"reg","ret">>, <<"fail","ret">>, <<"failnow">>, <<"panic">>, <<"reg","failnow">>, <<"reg","reg","panic">>}
SmallCleanup == {<<"ret">>, <<"fail","ret">>, <<"panic">>, <<"regn","ret">>}
TinySetup == {<<"ret">>, <<"reg","ret">>, <<"fail","ret">>, <<"panic">>}
TinyBody  == {<<"ret">>, <<"reg","ret">>, <<"fail","ret">>, <<"failnow">>, <<"reg","panic">>}
TinyCleanup == {<<"ret">>, <<"failnow">>}
=============================================================================
