--------------------------- MODULE ProgressStats ---------------------------
(* C01 — every executed iteration is counted exactly once.                                        *)
(* internal/progress/average.go (IterationDurations.Add, DurationStats.CollectLifetime),          *)
(* internal/progress/stats.go (Stats.Snapshot/Total) and internal/run/result.go (the Result       *)
(* mutex around SnapshotProgress / GetTotals, and the snapshot they store) at the grain of single  *)
(* atomic operations, for one outcome (the two outcomes use separate, identical accumulators).     *)
(*   recorders   : Add = sum.Add ; count.Add                     (lock-free, any number at once)   *)
(*   collectors  : periodic snapshotter P and the main goroutine M (final totals), each            *)
(*                 [Result.mu.Lock] CollectLifetime ; read lifetime ; store Result.snapshot [Unlock]*)
(* CollectBySwap = TRUE  : period accumulators are taken with atomic swaps (repaired code)         *)
(* CollectBySwap = FALSE : read, merge, then reset (the pinned code) - an Add between the read and  *)
(*                         the reset is erased.                                                     *)
(* Locked = FALSE models collectors that are not serialised by the Result mutex.                    *)
(* StopWaits = FALSE models a progress runner whose Stop() does not wait for a tick in flight.      *)
(* min/max are not modelled here: under concurrency the code documents them as approximate, and    *)
(* C17 specifies them for sequential use (ProgressSeq).                                             *)
EXTENDS Integers, FiniteSets, Sequences

CONSTANTS Rec,            \* recorder goroutines (workers finishing iterations)
          AddsPer,        \* Adds per recorder
          MaxSnaps,       \* periodic snapshots P may take
          CollectBySwap, Locked, StopWaits

VARIABLES rsum, rcount,       \* period ("running") accumulators
          lsum, lcount,       \* lifetime accumulators
          result,             \* Result.snapshot: lifetime count last stored
          lock,               \* holder of Result.mu ("" = free)
          rpc, radds,         \* recorder program counter / completed Adds
          cpc,                \* collector pc, per collector in {"P","M"}
          tmpS, tmpC, lc,     \* collector locals: swapped/read period values, lifetime count read
          snaps, stopped,
          countIncs           \* ghost: number of count.Add(1) executed so far
vars == <<rsum, rcount, lsum, lcount, result, lock, rpc, radds, cpc, tmpS, tmpC, lc, snaps, stopped, countIncs>>

Coll == {"P", "M"}
D == 1   \* every Add carries duration 1: sums and counts must agree at quiescence

Init == /\ rsum = 0 /\ rcount = 0 /\ lsum = 0 /\ lcount = 0 /\ result = 0 /\ lock = ""
        /\ rpc = [r \in Rec |-> "sum"] /\ radds = [r \in Rec |-> 0]
        /\ cpc = [c \in Coll |-> "idle"] /\ tmpS = [c \in Coll |-> 0] /\ tmpC = [c \in Coll |-> 0]
        /\ lc = [c \in Coll |-> 0] /\ snaps = 0 /\ stopped = FALSE /\ countIncs = 0

(* ---- recorders: IterationDurations.Add ---- *)
RAddSum(r) == /\ rpc[r] = "sum" /\ radds[r] < AddsPer
              /\ rsum' = rsum + D /\ rpc' = [rpc EXCEPT ![r] = "count"]
              /\ UNCHANGED <<rcount, lsum, lcount, result, lock, radds, cpc, tmpS, tmpC, lc, snaps, stopped, countIncs>>
RAddCount(r) == /\ rpc[r] = "count"
                /\ rcount' = rcount + 1 /\ countIncs' = countIncs + 1
                /\ radds' = [radds EXCEPT ![r] = @ + 1]
                /\ rpc' = [rpc EXCEPT ![r] = IF radds[r] + 1 = AddsPer THEN "done" ELSE "sum"]
                /\ UNCHANGED <<rsum, lsum, lcount, result, lock, cpc, tmpS, tmpC, lc, snaps, stopped>>
RecordersDone == \A r \in Rec : rpc[r] = "done"

(* ---- collectors ---- *)
Goto(c, l) == cpc' = [cpc EXCEPT ![c] = l]
First == IF CollectBySwap THEN "swapSum" ELSE "read"

\* P: a periodic tick fires (only while not stopped; if Stop does not wait, one tick may already be due)
PStart == /\ cpc["P"] = "idle" /\ snaps < MaxSnaps /\ ~stopped
          /\ snaps' = snaps + 1 /\ Goto("P", "lock")
          /\ UNCHANGED <<rsum, rcount, lsum, lcount, result, lock, rpc, radds, tmpS, tmpC, lc, stopped, countIncs>>
\* M: run() returned (all workers exited), progressRunner.Stop(), then GetTotals()
MStop == /\ cpc["M"] = "idle" /\ RecordersDone /\ ~stopped
         /\ (StopWaits => cpc["P"] = "idle")
         /\ stopped' = TRUE
         /\ UNCHANGED <<rsum, rcount, lsum, lcount, result, lock, rpc, radds, cpc, tmpS, tmpC, lc, snaps, countIncs>>
MStart == /\ cpc["M"] = "idle" /\ stopped /\ Goto("M", "lock")
          /\ UNCHANGED <<rsum, rcount, lsum, lcount, result, lock, rpc, radds, tmpS, tmpC, lc, snaps, stopped, countIncs>>

CLock(c) == /\ cpc[c] = "lock" /\ (Locked => lock = "")
            /\ lock' = IF Locked THEN c ELSE lock
            /\ Goto(c, First)
            /\ UNCHANGED <<rsum, rcount, lsum, lcount, result, rpc, radds, tmpS, tmpC, lc, snaps, stopped, countIncs>>
\* pinned code: running.Snapshot() (period figures only), lifetime.Update(&running), running.Reset()
CRead(c) == /\ cpc[c] = "read" /\ Goto(c, "mergeSum")
            /\ UNCHANGED <<rsum, rcount, lsum, lcount, result, lock, rpc, radds, tmpS, tmpC, lc, snaps, stopped, countIncs>>
CMergeSum(c) == /\ cpc[c] = "mergeSum"
                /\ lsum' = lsum + (IF CollectBySwap THEN tmpS[c] ELSE rsum) /\ Goto(c, "mergeCount")
                /\ UNCHANGED <<rsum, rcount, lcount, result, lock, rpc, radds, tmpS, tmpC, lc, snaps, stopped, countIncs>>
CMergeCount(c) == /\ cpc[c] = "mergeCount"
                  /\ lcount' = lcount + (IF CollectBySwap THEN tmpC[c] ELSE rcount)
                  /\ Goto(c, IF CollectBySwap THEN "lifeRead" ELSE "resetSum")
                  /\ UNCHANGED <<rsum, rcount, lsum, result, lock, rpc, radds, tmpS, tmpC, lc, snaps, stopped, countIncs>>
CResetSum(c) == /\ cpc[c] = "resetSum" /\ rsum' = 0 /\ Goto(c, "resetCount")
                /\ UNCHANGED <<rcount, lsum, lcount, result, lock, rpc, radds, tmpS, tmpC, lc, snaps, stopped, countIncs>>
CResetCount(c) == /\ cpc[c] = "resetCount" /\ rcount' = 0 /\ Goto(c, "lifeRead")
                  /\ UNCHANGED <<rsum, lsum, lcount, result, lock, rpc, radds, tmpS, tmpC, lc, snaps, stopped, countIncs>>
\* repaired code: sum.Swap(0), count.Swap(0), then merge the swapped values
CSwapSum(c) == /\ cpc[c] = "swapSum" /\ tmpS' = [tmpS EXCEPT ![c] = rsum] /\ rsum' = 0 /\ Goto(c, "swapCount")
               /\ UNCHANGED <<rcount, lsum, lcount, result, lock, rpc, radds, tmpC, lc, snaps, stopped, countIncs>>
CSwapCount(c) == /\ cpc[c] = "swapCount" /\ tmpC' = [tmpC EXCEPT ![c] = rcount] /\ rcount' = 0 /\ Goto(c, "mergeSum")
                 /\ UNCHANGED <<rsum, lsum, lcount, result, lock, rpc, radds, tmpS, lc, snaps, stopped, countIncs>>
\* lifetime.Snapshot(): the count that will be shown
CLifeRead(c) == /\ cpc[c] = "lifeRead" /\ lc' = [lc EXCEPT ![c] = lcount] /\ Goto(c, "assign")
                /\ UNCHANGED <<rsum, rcount, lsum, lcount, result, lock, rpc, radds, tmpS, tmpC, snaps, stopped, countIncs>>
\* r.snapshot = ... ; Unlock
CAssign(c) == /\ cpc[c] = "assign" /\ result' = lc[c]
              /\ lock' = IF Locked THEN "" ELSE lock
              /\ Goto(c, IF c = "M" THEN "done" ELSE "idle")
              /\ UNCHANGED <<rsum, rcount, lsum, lcount, rpc, radds, tmpS, tmpC, lc, snaps, stopped, countIncs>>

CollStep(c) == \/ CLock(c) \/ CRead(c) \/ CMergeSum(c) \/ CMergeCount(c) \/ CResetSum(c) \/ CResetCount(c)
               \/ CSwapSum(c) \/ CSwapCount(c) \/ CLifeRead(c) \/ CAssign(c)
Next == \/ \E r \in Rec : RAddSum(r) \/ RAddCount(r)
        \/ PStart \/ MStop \/ MStart
        \/ \E c \in Coll : CollStep(c)
Spec == Init /\ [][Next]_vars /\ WF_vars(Next)

Total == Cardinality(Rec) * AddsPer
(* Properties *)
TypeOK == rsum >= 0 /\ rcount >= 0
NeverOverCount == lcount <= countIncs /\ result <= countIncs            \* nothing is counted twice
\* the run has returned (final totals stored) and no snapshot is in flight: the result is exact
Conserved == (cpc["M"] = "done" /\ cpc["P"] = "idle") => (result = Total /\ lcount = Total /\ lsum = Total * D)
ResultMonotone == [][result' >= result]_vars
Finishes == <>(cpc["M"] = "done")
=============================================================================
