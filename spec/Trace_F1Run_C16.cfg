INIT Init
NEXT Next
INVARIANTS OK_C16 OK_MACHINERY
CHECK_DEADLOCK FALSE
