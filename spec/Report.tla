------------------------------- MODULE Report -------------------------------
(* C19 — the numbers a rendered summary / progress line must state, as relations between the        *)
(* result it is rendered from and what was extracted from the output (internal/run/views/*.go,      *)
(* internal/run/result.go Summary/Progress, internal/log/attrs.go IterationStatsGroup).             *)
(* Observation r: s, f, d = counts of the result snapshot; failed = Result.Failed();                 *)
(* form = "text" | "log"; printed values, -1 when the output does not show that item.                *)
EXTENDS Integers

Total(r) == r.s + r.f + r.d
\* a printed percentage p (two decimals, given as p*100 rounded) is the share count/total:
\* | p100 * total - 10000 * count | <= total   (half a unit of the last digit, plus float slack)
PctOK(p100, count, total) ==
    IF count = 0 THEN p100 = -1 \/ p100 = 0
    ELSE IF total >= 200000 THEN p100 >= 0          \* beyond TLC's integers for the product: presence only
    ELSE /\ p100 >= 0
         /\ p100 * total - 10000 * count <= total
         /\ 10000 * count - p100 * total <= total

\* an item may be left out of the text only when its count is zero
ShownOK(printed, count) == printed = count \/ (printed = -1 /\ count = 0)

SummaryOK(r) ==
    /\ r.panicked = FALSE                                         \* rendering never fails
    /\ r.banner = (IF r.failed THEN "failed" ELSE "passed")       \* banner = verdict
    /\ IF r.form = "text"
       THEN /\ r.p_started = r.s + r.f
            /\ ShownOK(r.p_s, r.s) /\ ShownOK(r.p_f, r.f) /\ ShownOK(r.p_d, r.d)
            /\ PctOK(r.pct_s, r.s, Total(r)) /\ PctOK(r.pct_f, r.f, Total(r)) /\ PctOK(r.pct_d, r.d, Total(r))
       ELSE /\ r.p_s = r.s /\ r.p_f = r.f /\ r.p_d = r.d           \* structured log: iteration_stats group
            \* the group's "started" is the result's started count (finished bodies); 0 is the renderer's
            \* "not given" sentinel, for which it states the sum of the three instead
            /\ (r.p_started = r.s + r.f \/ (r.s + r.f = 0 /\ r.p_started = Total(r)))

ProgressOK(r) ==
    /\ r.panicked = FALSE
    /\ r.p_s = r.s /\ r.p_f = r.f
    /\ IF r.form = "text" THEN ShownOK(r.p_d, r.d) ELSE r.p_d = r.d
=============================================================================
