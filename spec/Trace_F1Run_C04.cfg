INIT Init
NEXT Next
INVARIANTS OK_C04 OK_MACHINERY
CHECK_DEADLOCK FALSE
