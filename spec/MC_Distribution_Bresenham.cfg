SPECIFICATION BresenhamSpec
CONSTANTS MaxN = 7  MaxRate = 9  MaxCycles = 3  Q = 10
INVARIANTS EvalOncePerCycle CycleConserved NeverOver RegularEven
CHECK_DEADLOCK TRUE
