INIT Init
NEXT Next
INVARIANTS OK_C02 OK_MACHINERY
CHECK_DEADLOCK FALSE
