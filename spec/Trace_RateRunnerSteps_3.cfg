INIT Init
NEXT Next
CONSTANT NS = 3
INVARIANTS Mark StuckMark QuiescentAfterStop OnlyAfterStart
CHECK_DEADLOCK FALSE
