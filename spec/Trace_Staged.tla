--------------------------- MODULE Trace_Staged ---------------------------
(* Validates query logs of the REAL staged / ramp calculators against Staged.                     *)
(* {"kind":"staged","stages":[[d,e],...],"dur":reported total,"ev":[[t,r],...]}                   *)
(* {"kind":"ramp","S":s,"E":e,"D":d,"dur":reported,"ev":[[t,r],...]}  (times in integer units)     *)
EXTENDS Integers, Sequences, Json, IOUtils, TLC
T == ndJsonDeserialize(IOEnv.TRACE_FILE)
VARIABLES stages, cur, t, last, lastStage, tr, i, ok
St == INSTANCE Staged WITH DurSet <- {0}, TargetSet <- {0}, MaxStages <- 1, MaxT <- 0

StagesOf(x) == IF x.kind = "staged" THEN [k \in 1..Len(x.stages) |-> [d |-> x.stages[k][1], e |-> x.stages[k][2]]]
               ELSE <<[d |-> x.D, e |-> x.E]>>
\* reported total duration = sum of the stage durations (ramp: the ramp duration)
\* (dur = -2: observed through the command line, where the total is not visible)
HeaderOK(x) == x.panicked = FALSE /\ (x.dur = -2 \/ x.dur = St!Total(StagesOf(x)))

Init == /\ tr \in 1..Len(T) /\ i = 0 /\ ok = HeaderOK(T[tr])
        /\ stages = StagesOf(T[tr]) /\ cur = 1 /\ t = 0 /\ last = St!NONE /\ lastStage = 0
Next == /\ i < Len(T[tr].ev)
        /\ LET off == T[tr].ev[i + 1][1]  r == T[tr].ev[i + 1][2] IN
             /\ i' = i + 1
             /\ IF T[tr].kind = "staged"
                THEN /\ ok' = (off >= t /\ St!QueryOK(stages, cur, lastStage, last, off, r))
                     /\ cur' = St!StageAt(stages, cur, off)
                     /\ lastStage' = cur'
                ELSE /\ ok' = (off >= t /\ St!RampOK(T[tr].S, T[tr].E, T[tr].D, off, last, r))
                     /\ UNCHANGED <<cur, lastStage>>
             /\ t' = off /\ last' = r
             /\ UNCHANGED <<stages, tr>>
Accepted == ok
=============================================================================
