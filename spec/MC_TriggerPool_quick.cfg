SPECIFICATION Spec
CONSTANTS Workers = {w1, w2}  TickSizes = {1, 2}  MaxTicks = 2  MaxIter = 0  AllowCancel = TRUE  BodiesEnd = TRUE  LimitDrains = TRUE
INVARIANTS TypeOK NoOverCount Conservation NoSilentLossWithoutLimit Gapless StartedMatchesIds MutexOK
PROPERTIES Termination NoStrandedWaiter
CHECK_DEADLOCK FALSE
