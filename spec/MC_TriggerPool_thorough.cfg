SPECIFICATION Spec
CONSTANTS Workers = {w1, w2, w3}  TickSizes = {1, 3}  MaxTicks = 2  MaxIter = 0  AllowCancel = TRUE  BodiesEnd = TRUE  LimitDrains = TRUE
INVARIANTS TypeOK NoOverCount Conservation Gapless StartedMatchesIds MutexOK

CHECK_DEADLOCK FALSE
