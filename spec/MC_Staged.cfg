SPECIFICATION Spec
CONSTANTS DurSet = {0, 1, 3}  TargetSet <- MC_Targets_A  MaxStages = 2  MaxT = 7
INVARIANTS ZeroAfterEnd WithinTargets
PROPERTIES CursorMonotone
CHECK_DEADLOCK FALSE
