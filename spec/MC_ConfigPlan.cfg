INIT Init
NEXT Next
INVARIANTS AllKeptWithoutStart KeptIsSuffix MonotoneInNow KeepRule TotalCountsAll DefaultsApplied
CHECK_DEADLOCK FALSE
