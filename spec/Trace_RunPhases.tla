-------------------------- MODULE Trace_RunPhases --------------------------
(* Every whole real run, recorded by the harness (sub-command `runs`), must be a behaviour of RunPhases: *)
(* each recorded output of the run is the corresponding specification action, taken when the             *)
(* specification enables it; events the specification does not talk about (ticks, evaluations, progress  *)
(* lines, metrics, stages) are stuttering steps.  `bad` names the first event the specification refuses. *)
EXTENDS RunPhases, Sequences, Json, IOUtils, TLC

T == ndJsonDeserialize(IOEnv.TRACE_FILE)
VARIABLES tr, i, bad
tvars == <<vars, tr, i, bad>>

TInit == Init /\ tr \in 1..Len(T) /\ i = 0 /\ bad = ""

Refuse(e) == bad' = e.k /\ UNCHANGED vars
Take(can, act, e) == IF can THEN act /\ bad' = bad ELSE Refuse(e)

TNext == /\ i < Len(T[tr].ev) /\ bad = ""
         /\ i' = i + 1 /\ UNCHANGED tr
         /\ LET e == T[tr].ev[i + 1] IN
            CASE e.k = "setup"        -> Take(CanSetupDone, SetupDone(e.a = 1), e)
              [] e.k = "start"        -> Take(CanIterStart, IterStart, e)
              [] e.k = "end"          -> Take(CanIterEnd, IterEnd, e)
              [] e.k = "endmsg"       -> Take(CanEndMsg(e.s), EndMsg(e.s), e)
              [] e.k = "timeoutmsg"   -> Take(CanTimeoutMsg, TimeoutMsg, e)
              [] e.k = "setupcleanup" -> Take(CanSetupCleanups, SetupCleanups, e)
              [] e.k = "summary"      -> Take(CanSummary, Summary, e)
              [] e.k = "ret"          -> Take(CanReturn, Return, e)
              [] OTHER                -> UNCHANGED vars /\ bad' = bad

Accepted == bad = ""
\* the specification's own invariants, evaluated on the real run
InvOnTrace == NoIterationWithoutSetup /\ QuietAfterWaiting /\ TimeoutOnlyAfterStop
\* a finished trace has reached the end of the run
Complete == (i = Len(T[tr].ev) /\ bad = "") => ph = "done"
=============================================================================
