INIT Init
NEXT Next
CONSTANT NS = 1
INVARIANTS Mark StuckMark QuiescentAfterStop OnlyAfterStart
CHECK_DEADLOCK FALSE
