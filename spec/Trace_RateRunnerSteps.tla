----------------------- MODULE Trace_RateRunnerSteps -----------------------
(* Trace validation of the REAL raterun.Runner against RateRunner.tla's own actions: every API call  *)
(* the harness makes (start, restart, stopcall/stopret, cancel) and every yield point the runner      *)
(* goroutine reaches (h.restart, h.next, h.tick, h.ticked, h.done, exit) is one action of the         *)
(* specification; timers and tickers firing are silent environment steps taken when the logged        *)
(* action needs them.  The function's frequency argument must be that of the active schedule.         *)
EXTENDS Integers, Sequences, Json, IOUtils, TLC
T == ndJsonDeserialize(IOEnv.TRACE_FILE)

VARIABLES gpc, cancelled, stoppedClosed, restartBuf, idx, tickDue, nextDue, nextArmed, stopCalled, stopRet, fires,
          invocations, afterStop, beforeStart, lastFreqIdx, tr, i, rejected
CONSTANT NS
RR == INSTANCE RateRunner WITH NSched <- NS, MaxTicks <- 1000000, StopWaits <- TRUE
svars == <<gpc, cancelled, stoppedClosed, restartBuf, idx, tickDue, nextDue, nextArmed, stopCalled, stopRet, fires,
           invocations, afterStop, beforeStart, lastFreqIdx>>
Ev == T[tr].ev

Init == tr \in 1..Len(T) /\ i = 0 /\ rejected = (T[tr].err # "") /\ RR!Init

Skip == i' = i + 1 /\ UNCHANGED <<svars, tr, rejected>>
Do(A) == A /\ i' = i + 1 /\ UNCHANGED <<tr, rejected>>
Silent(A) == A /\ UNCHANGED <<tr, i, rejected>>

Consume ==
    /\ i < Len(Ev) /\ ~rejected
    /\ LET e == Ev[i + 1] IN
       CASE e.k = "start" -> Do(RR!Start)
         [] e.k = "restart" -> Do(RR!Restart)
         [] e.k = "stopcall" -> Do(RR!StopCancel)
         [] e.k = "stopret" -> Do(RR!StopReturn)
         [] e.k = "cancel" -> IF cancelled THEN Skip ELSE Do(RR!CtxCancel)
         [] e.k = "h.restart" -> Do(RR!SelRestart)
         [] e.k = "h.next" -> IF nextDue THEN Do(RR!SelNext) ELSE Silent(RR!TimerFire)
         [] e.k = "h.tick" -> IF tickDue
                               THEN \* the argument handed to the function is the active schedule's frequency
                                    /\ idx >= 0 /\ e.a = T[tr].sched[idx + 1][2]
                                    /\ Do(RR!SelTick)
                               ELSE Silent(RR!TickFire)
         [] e.k = "h.ticked" -> Do(RR!FnReturn)
         [] e.k = "h.done" -> Do(RR!SelDone)
         [] OTHER -> Skip              \* new, parked, release, fnb, fne, exit, after: not actions of this specification
Next == Consume
Done == i = Len(Ev) /\ ~rejected
Mark == Done => PrintT(<<"ACCEPTED", tr>>)
StuckMark == (i < Len(Ev) /\ ~rejected /\ ~ENABLED Next) => PrintT(<<"STUCK", tr, i>>)
QuiescentAfterStop == RR!QuiescentAfterStop
OnlyAfterStart == RR!OnlyAfterStart
=============================================================================
