---------------------------- MODULE MC_ConfigPlan ----------------------------
(* Exhaustive table of small abstract configs: design theorems of ConfigPlan. *)
EXTENDS ConfigPlan
VARIABLE cfg
NoStage == [dur |-> -1, mode |-> "", rate |-> -1, dist |-> 0, conc |-> -1, start |-> -1, end |-> -1, stg |-> -1, freq |-> -1, ptag |-> ""]
DefSet == {[NoStage EXCEPT !.dur = d, !.mode = m, !.conc = c] : d \in {-1, 2000}, m \in {"", "users"}, c \in {-1, 5}}
StageSet == {[NoStage EXCEPT !.dur = d, !.mode = m, !.rate = r, !.conc = c] :
                d \in {-1, 1000}, m \in {"", "constant", "users"}, r \in {-1, 3}, c \in {-1, 2}}
Init == cfg \in [has_start : BOOLEAN, now_off : {0, 999, 1000, 1001, 2000, 3000, 3001}, def : DefSet, limconc : {4},
                 stages : UNION {[1..n -> StageSet] : n \in 1..2}, min_dur : {0}]
Next == UNCHANGED cfg
\* no stage-start: everything is kept
AllKeptWithoutStart == (~cfg.has_start /\ CommonValid(cfg)) => KeptIdx(cfg) = [k \in 1..Len(cfg.stages) |-> k]
\* the unfinished stages are a suffix of the file order
KeptIsSuffix == CommonValid(cfg) => IsSuffixPlan(cfg)
\* a later `now` never keeps more
MonotoneInNow == CommonValid(cfg) =>
    LET later == [cfg EXCEPT !.now_off = @ + 1] IN Len(KeptIdx(later)) <= Len(KeptIdx(cfg))
\* a stage is kept exactly when its scheduled end is still in the future
KeepRule == (cfg.has_start /\ CommonValid(cfg)) => \A k \in 1..Len(cfg.stages) :
    (\E j \in 1..Len(KeptIdx(cfg)) : KeptIdx(cfg)[j] = k) <=> (CumDur(Resolved(cfg), k) > cfg.now_off)
\* total duration counts every stage, kept or not
TotalCountsAll == CommonValid(cfg) => TotalDuration(cfg) >= CumDur(Resolved(cfg), Len(cfg.stages))
\* defaults: a resolved field equals the stage's value when present, else the default's
DefaultsApplied == \A k \in 1..Len(cfg.stages) :
    LET s == cfg.stages[k]  r == Resolved(cfg)[k] IN
      /\ r.dur = IF s.dur # -1 THEN s.dur ELSE cfg.def.dur
      /\ r.mode = IF s.mode # "" THEN s.mode ELSE cfg.def.mode
      /\ r.conc = IF s.conc # -1 THEN s.conc ELSE IF cfg.def.conc # -1 THEN cfg.def.conc ELSE cfg.limconc
=============================================================================
