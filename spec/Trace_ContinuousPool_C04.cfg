INIT TInit
NEXT TNext
CONSTANTS ParamSet = {}  AllowCancel = TRUE  BodiesEnd = TRUE  SyncFlag = TRUE
INVARIANTS InvC04
CHECK_DEADLOCK FALSE
