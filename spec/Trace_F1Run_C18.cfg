INIT Init
NEXT Next
INVARIANTS OK_C18 OK_MACHINERY
CHECK_DEADLOCK FALSE
