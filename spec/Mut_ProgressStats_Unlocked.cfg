SPECIFICATION Spec
CONSTANTS Rec = {r1, r2}  AddsPer = 1  MaxSnaps = 2
  CollectBySwap = TRUE  Locked = FALSE  StopWaits = FALSE
INVARIANTS TypeOK NeverOverCount Conserved
PROPERTIES ResultMonotone Finishes
CHECK_DEADLOCK FALSE
