SPECIFICATION Spec
CONSTANTS Workers = {w1, w2, w3}  MaxIter = 4  AllowCancel = FALSE  BodiesEnd = TRUE  PreCancelled = TRUE  SyncFlag = TRUE
INVARIANTS Ceiling Gapless Unique NothingOnADeadContext
PROPERTIES Termination
CHECK_DEADLOCK FALSE
