SPECIFICATION Spec
CONSTANTS ParamSet <- P_pre  AllowCancel = FALSE  BodiesEnd = TRUE  SyncFlag = TRUE
INVARIANTS Ceiling Gapless Unique NothingOnADeadContext
PROPERTIES Termination
CHECK_DEADLOCK FALSE
