------------------------- MODULE Trace_TriggerPool -------------------------
(* Trace validation of the REAL TriggerPool against TriggerPool.tla's own actions.                   *)
(* The cooperative harness (`c02`) logs every arrival of a goroutine at a yield point, in execution  *)
(* order.  An arrival [p, pt, n] is consumed by letting process p take fine-grain steps of the        *)
(* specification (and only p) until its program counter is the one that yield point stands for.      *)
(* If no step of p is enabled, or p can move but never reaches that pc, the trace is rejected - the   *)
(* real code did something the specification does not allow.  At the end the specification's ledger   *)
(* (started, dropped) must equal what the real progress statistics report.                            *)
(*   {"workers":[...], "maxiter":N, "arr":[[p, pt, n], ...]}                                          *)
EXTENDS Integers, Sequences, FiniteSets, Json, IOUtils, TLC

T == ndJsonDeserialize(IOEnv.TRACE_FILE)

VARIABLES num, stopFlag, wcancel, extCancel, mu, waiting, woken, wpc, tpc, curN, tdisc, ticks, spc, sdisc,
          iter, ids, limitReached, requested, late, started, dropped, stopDropped, discarded,
          tr, i, moved, rejected

CONSTANTS MaxWorkers, MaxIterC      \* all traces of one file share the limit (the harness groups them)
AllW == {"w1", "w2", "w3"}
TP == INSTANCE TriggerPool WITH Workers <- AllW, TickSizes <- {0}, MaxTicks <- 1000000, MaxIter <- MaxIterC,
        AllowCancel <- TRUE, BodiesEnd <- TRUE, LimitDrains <- TRUE

Arr == T[tr].arr
tvars == <<tr, i, moved, rejected>>
svars == <<num, stopFlag, wcancel, extCancel, mu, waiting, woken, wpc, tpc, curN, tdisc, ticks, spc, sdisc,
           iter, ids, limitReached, requested, late, started, dropped, stopDropped, discarded>>

\* workers that do not exist in this trace are parked in "exit" from the start
Init == /\ tr \in 1..Len(T) /\ i = 0 /\ moved = FALSE /\ rejected = FALSE
        \* TriggerPool!Init, except that workers which do not exist in this trace sit in "exit" from the start
        /\ num = 0 /\ stopFlag = FALSE /\ wcancel = FALSE /\ extCancel = FALSE /\ mu = "" /\ waiting = {} /\ woken = {}
        /\ tpc = "idle" /\ curN = 0 /\ tdisc = 0 /\ ticks = 0 /\ spc = "wait" /\ sdisc = 0 /\ iter = 0 /\ ids = {}
        /\ limitReached = FALSE /\ requested = 0 /\ late = 0 /\ started = 0 /\ dropped = 0 /\ stopDropped = 0 /\ discarded = 0
        /\ wpc = [w \in AllW |-> IF w \in {T[tr].workers[k] : k \in 1..Len(T[tr].workers)} THEN "loop" ELSE "exit"]

\* the pc a yield point stands for
WPcOf(pt) == CASE pt = "tp.w.started" -> "loop" [] pt = "tp.w.loop" -> "none" [] pt = "tp.w.wait" -> "lock"
               [] pt = "tp.w.park" -> "wait" [] pt = "tp.w.beforeTake" -> "take" [] pt = "tp.w.taken" -> "next"
               [] pt = "tp.limit.discarded" -> "limc" [] pt = "body" -> "body" [] pt = "tp.w.next" -> "loop"
               [] pt = "tp.w.exit" -> "exit" [] OTHER -> "?"
\* tp.send.locked is logged inside the cond mutex; nothing else can run until the sender has swapped, broadcast and
\* unlocked (cooperative regime), and the drops are recorded before its next yield point: the whole critical section
\* and the drop recording are attributed to this arrival
TPcOf(pt) == CASE pt = "tp.trigger.checked" -> "lock" [] pt = "tp.send.locked" -> "idle" [] OTHER -> "?"
SPcOf(pt) == CASE pt = "tp.stopper.woken" -> "flag" [] pt = "tp.stop.flagged" -> "lock" [] pt = "tp.send.locked" -> "done"
               [] OTHER -> "?"

\* the ticker's TStart with the logged tick size (TickSizes is irrelevant here)
TStartN(n) == /\ tpc = "idle" /\ curN' = n /\ tpc' = "ctx" /\ ticks' = ticks + 1
              /\ UNCHANGED <<num, stopFlag, wcancel, extCancel, mu, waiting, woken, wpc, tdisc, spc, sdisc, iter, ids, limitReached,
                             requested, late, started, dropped, stopDropped, discarded>>

Reached(a) == CASE a[1] = "T" -> tpc' = TPcOf(a[2])
                [] a[1] = "stopper" -> spc' = SPcOf(a[2])
                [] a[1] = "C" -> TRUE
                [] OTHER -> wpc'[a[1]] = WPcOf(a[2])

\* one fine step of the process named in the arrival
ProcStep(a) == CASE a[1] = "T" -> (TP!TCtx \/ TP!TLock \/ TP!TSwap \/ TP!TUnlock \/ TP!TDrop)
                 [] a[1] = "stopper" -> TP!Stopper
                 [] a[1] = "C" -> TP!Cancel
                 [] OTHER -> TP!Worker(a[1])

\* arrivals that need no step: the initial position of a goroutine, the announcement of a tick
\* (which performs TStart with the logged size), and the final comparison
IsInitial(a) == a[2] \in {"tp.w.started", "C.cancel", "T.first"}

Consume ==
    /\ i < Len(Arr) /\ ~rejected
    /\ LET a == Arr[i + 1] IN
       CASE IsInitial(a) -> /\ i' = i + 1 /\ moved' = FALSE /\ UNCHANGED <<svars, tr, rejected>>
         [] a[2] = "T.tick" ->
              \* the ticker is about to call Trigger(n); if its previous call is still at the context check it
              \* returned there (context done) - that is the only way back to idle without publishing
              IF tpc = "idle" THEN /\ TStartN(a[3]) /\ i' = i + 1 /\ moved' = FALSE /\ UNCHANGED <<tr, rejected>>
              ELSE /\ tpc = "ctx" /\ wcancel /\ TP!TCtx /\ i' = i /\ moved' = TRUE /\ UNCHANGED <<tr, rejected>>
         [] a[2] = "T.last" ->
              IF tpc = "idle" THEN /\ i' = i + 1 /\ moved' = FALSE /\ UNCHANGED <<svars, tr, rejected>>
              ELSE /\ tpc = "ctx" /\ wcancel /\ TP!TCtx /\ i' = i /\ moved' = TRUE /\ UNCHANGED <<tr, rejected>>
         [] a[2] = "C.done" ->
              \* the canceller called cancel(): a no-op if the limit path had already cancelled the worker context
              /\ IF wcancel THEN UNCHANGED svars ELSE TP!Cancel
              /\ i' = i + 1 /\ moved' = FALSE /\ UNCHANGED <<tr, rejected>>
         [] a[2] = "END" ->
              \* everything has finished: the specification's ledger equals the real statistics
              /\ i' = i + 1 /\ moved' = FALSE /\ UNCHANGED <<svars, tr>>
              /\ rejected' = ~(/\ started = a[3] /\ dropped + stopDropped = a[4]
                               /\ TP!NoOverCount /\ TP!Gapless /\ (\A w \in AllW : wpc[w] = "exit") /\ spc = "done" /\ tpc = "idle")
         [] OTHER ->
              /\ ProcStep(a)
              /\ IF Reached(a) THEN i' = i + 1 /\ moved' = FALSE ELSE i' = i /\ moved' = TRUE
              /\ UNCHANGED <<tr, rejected>>

\* the real code arrived somewhere the specification cannot follow
Reject == /\ i < Len(Arr) /\ ~rejected /\ ~ENABLED Consume
          /\ rejected' = TRUE /\ UNCHANGED <<svars, tr, i, moved>>
Next == Consume \/ Reject

Accepted == ~rejected
\* safety properties of the specification hold along the way as well
NoOverCount == TP!NoOverCount
MutexOK == TP!MutexOK
=============================================================================
