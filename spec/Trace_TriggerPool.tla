------------------------- MODULE Trace_TriggerPool -------------------------
(* Trace validation of the REAL TriggerPool against TriggerPool.tla's own actions.                   *)
(* The cooperative harness (`c02`) logs every arrival of a goroutine at a yield point, in execution  *)
(* order.  An arrival [p, pt, n] is consumed by letting process p take fine-grain steps of the        *)
(* specification (and only p) until its program counter is the one that yield point stands for.      *)
(* If no step of p is enabled, or p can move but never reaches that pc, the trace is rejected - the   *)
(* real code did something the specification does not allow.  At the end the specification's ledger   *)
(* (started, dropped) must equal what the real progress statistics report.                            *)
(*   {"workers":[...], "maxiter":N, "arr":[[p, pt, n], ...]}                                          *)
EXTENDS Integers, Sequences, FiniteSets, Json, IOUtils, TLC

T == ndJsonDeserialize(IOEnv.TRACE_FILE)

VARIABLES num, stopFlag, wcancel, extCancel, mu, waiting, woken, wpc, tpc, curN, tdisc, ticks, spc, sdisc,
          iter, ids, limitReached, requested, late, started, dropped, stopDropped, discarded,
          tr, i, moved, rejected,
          cur,        \* the goroutine the scheduler released last and that has not arrived yet ("" = none)
          ahead       \* cur has already been stepped (as a helper) up to the pc of its pending arrival

CONSTANTS MaxWorkers, MaxIterC      \* all traces of one file share the limit (the harness groups them)
AllW == {"w1", "w2", "w3"}
TP == INSTANCE TriggerPool WITH Workers <- AllW, TickSizes <- {0}, MaxTicks <- 1000000, MaxIter <- MaxIterC,
        AllowCancel <- TRUE, BodiesEnd <- TRUE, LimitDrains <- TRUE

Arr == T[tr].arr
tvars == <<tr, i, moved, rejected, cur, ahead>>
svars == <<num, stopFlag, wcancel, extCancel, mu, waiting, woken, wpc, tpc, curN, tdisc, ticks, spc, sdisc,
           iter, ids, limitReached, requested, late, started, dropped, stopDropped, discarded>>

\* workers that do not exist in this trace are parked in "exit" from the start
Init == /\ tr \in 1..Len(T) /\ i = 0 /\ moved = FALSE /\ rejected = FALSE /\ cur = "" /\ ahead = FALSE
        \* TriggerPool!Init, except that workers which do not exist in this trace sit in "exit" from the start
        /\ num = 0 /\ stopFlag = FALSE /\ wcancel = FALSE /\ extCancel = FALSE /\ mu = "" /\ waiting = {} /\ woken = {}
        /\ tpc = "idle" /\ curN = 0 /\ tdisc = 0 /\ ticks = 0 /\ spc = "wait" /\ sdisc = 0 /\ iter = 0 /\ ids = {}
        /\ limitReached = FALSE /\ requested = 0 /\ late = 0 /\ started = 0 /\ dropped = 0 /\ stopDropped = 0 /\ discarded = 0
        /\ wpc = [w \in AllW |-> IF w \in {T[tr].workers[k] : k \in 1..Len(T[tr].workers)} THEN "loop" ELSE "exit"]

\* the pc a yield point stands for
WPcOf(pt) == CASE pt = "tp.w.started" -> "loop" [] pt = "tp.w.loop" -> "none" [] pt = "tp.w.wait" -> "lock"
               [] pt = "tp.w.park" -> "wait" [] pt = "tp.w.beforeTake" -> "take" [] pt = "tp.w.taken" -> "next"
               [] pt = "tp.limit.discarded" -> "limc" [] pt = "body" -> "body" [] pt = "tp.w.next" -> "loop"
               [] pt = "tp.w.exit" -> "exit" [] OTHER -> "?"
\* tp.send.locked is logged inside the cond mutex; nothing else can run until the sender has swapped, broadcast and
\* unlocked (cooperative regime), and the drops are recorded before its next yield point: the whole critical section
\* and the drop recording are attributed to this arrival
TPcOf(pt) == CASE pt = "tp.trigger.checked" -> "lock" [] pt = "tp.send.locked" -> "idle" [] OTHER -> "?"
SPcOf(pt) == CASE pt = "tp.stopper.woken" -> "flag" [] pt = "tp.stop.flagged" -> "lock" [] pt = "tp.send.locked" -> "done"
               [] OTHER -> "?"

\* the ticker's TStart with the logged tick size (TickSizes is irrelevant here)
TStartN(n) == /\ tpc = "idle" /\ curN' = n /\ tpc' = "ctx" /\ ticks' = ticks + 1
              /\ UNCHANGED <<num, stopFlag, wcancel, extCancel, mu, waiting, woken, wpc, tdisc, spc, sdisc, iter, ids, limitReached,
                             requested, late, started, dropped, stopDropped, discarded>>

Reached(a) == CASE a[1] = "T" -> tpc' = TPcOf(a[2])
                [] a[1] = "stopper" -> spc' = SPcOf(a[2])
                [] a[1] = "C" -> TRUE
                [] OTHER -> wpc'[a[1]] = WPcOf(a[2])

\* one fine step of the process named in the arrival
ProcStep(a) == CASE a[1] = "T" -> (TP!TCtx \/ TP!TLock \/ TP!TSwap \/ TP!TUnlock \/ TP!TDrop)
                 [] a[1] = "stopper" -> TP!Stopper
                 [] a[1] = "C" -> TP!Cancel
                 [] OTHER -> TP!Worker(a[1])

\* arrivals that need no step: the initial position of a goroutine, the announcement of a tick
\* (which performs TStart with the logged size), and the final comparison
IsInitial(a) == a[2] \in {"tp.w.started", "C.cancel", "T.first"}

\* the pending (not yet consumed) arrival of goroutine p: the first one after position i
PendingIdx(p) == CHOOSE j \in (i + 1)..Len(Arr) : Arr[j][1] = p /\ Arr[j][2] # "REL"
                     /\ \A k \in (i + 1)..(j - 1) : ~(Arr[k][1] = p /\ Arr[k][2] # "REL")
HasPending(p) == \E j \in (i + 1)..Len(Arr) : Arr[j][1] = p /\ Arr[j][2] # "REL"
Plain(a) == ~IsInitial(a) /\ a[2] \notin {"T.tick", "T.last", "C.done", "END", "REL"}

Consume ==
    /\ i < Len(Arr) /\ ~rejected
    /\ LET a == Arr[i + 1] IN
       CASE a[2] = "REL" ->
              \* the scheduler releases goroutine a[1]: until it arrives it is "mid-segment"
              /\ cur' = a[1] /\ ahead' = FALSE /\ i' = i + 1 /\ moved' = FALSE /\ UNCHANGED <<svars, tr, rejected>>
         [] IsInitial(a) -> /\ i' = i + 1 /\ moved' = FALSE /\ UNCHANGED <<svars, tr, rejected, cur, ahead>>
         [] a[2] = "T.tick" ->
              \* the ticker is about to call Trigger(n); if its previous call is still at the context check it
              \* returned there (context done) - that is the only way back to idle without publishing
              IF tpc = "idle" THEN /\ TStartN(a[3]) /\ i' = i + 1 /\ moved' = FALSE /\ cur' = "" /\ ahead' = FALSE /\ UNCHANGED <<tr, rejected>>
              ELSE /\ tpc = "ctx" /\ wcancel /\ TP!TCtx /\ i' = i /\ moved' = TRUE /\ UNCHANGED <<tr, rejected, cur, ahead>>
         [] a[2] = "T.last" ->
              IF tpc = "idle" THEN /\ i' = i + 1 /\ moved' = FALSE /\ cur' = "" /\ ahead' = FALSE /\ UNCHANGED <<svars, tr, rejected>>
              ELSE /\ tpc = "ctx" /\ wcancel /\ TP!TCtx /\ i' = i /\ moved' = TRUE /\ UNCHANGED <<tr, rejected, cur, ahead>>
         [] a[2] = "C.done" ->
              \* logged just before the canceller calls cancel(): a no-op if the limit path had already cancelled
              /\ IF wcancel THEN UNCHANGED svars ELSE TP!Cancel
              /\ i' = i + 1 /\ moved' = FALSE /\ cur' = "" /\ ahead' = FALSE /\ UNCHANGED <<tr, rejected>>
         [] a[2] = "END" ->
              \* everything has finished: the specification's ledger equals the real statistics
              /\ i' = i + 1 /\ moved' = FALSE /\ UNCHANGED <<svars, tr, cur, ahead>>
              /\ rejected' = ~(/\ started = a[3] /\ dropped + stopDropped = a[4]
                               /\ TP!NoOverCount /\ TP!Gapless /\ (\A w \in AllW : wpc[w] = "exit") /\ spc = "done" /\ tpc = "idle")
         [] a[1] = cur /\ ahead ->
              \* the released goroutine had already been stepped to this pc while others arrived
              /\ i' = i + 1 /\ moved' = FALSE /\ cur' = "" /\ ahead' = FALSE /\ UNCHANGED <<svars, tr, rejected>>
         [] OTHER ->
              /\ ProcStep(a)
              /\ IF Reached(a) THEN i' = i + 1 /\ moved' = FALSE ELSE i' = i /\ moved' = TRUE
              /\ cur' = IF Reached(a) /\ a[1] = cur THEN "" ELSE cur
              /\ ahead' = ahead
              /\ UNCHANGED <<tr, rejected>>

\* Another goroutine arrives while the released one is still between two yield points (e.g. the stop goroutine
\* wakes up as soon as the released worker has cancelled the context, before that worker reaches its next yield
\* point): the released goroutine may take its own steps first, up to the pc of its pending arrival.
Helper ==
    /\ i < Len(Arr) /\ ~rejected /\ cur # "" /\ ~ahead
    /\ Arr[i + 1][1] # cur /\ Arr[i + 1][2] # "REL" /\ ~moved
    /\ HasPending(cur) /\ Plain(Arr[PendingIdx(cur)])
    /\ LET b == Arr[PendingIdx(cur)] IN
         /\ ProcStep(b)
         /\ ahead' = Reached(b)
    /\ UNCHANGED <<tr, i, moved, rejected, cur>>

Next == Consume \/ Helper

\* acceptance is existential: some interleaving of the specification explains the log
Done == i = Len(Arr) /\ ~rejected
Mark == Done => PrintT(<<"ACCEPTED", tr>>)
StuckMark == (i < Len(Arr) /\ ~rejected /\ ~ENABLED Next) => PrintT(<<"STUCK", tr, i>>)
\* safety properties of the specification hold along the way as well
NoOverCount == TP!NoOverCount
MutexOK == TP!MutexOK
=============================================================================
