INIT Init
NEXT Next
INVARIANTS Accepted CarryExact BalanceBounded ZeroIsIdentity
CHECK_DEADLOCK FALSE
