------------------------------- MODULE Metrics -------------------------------
(* C16 — internal/metrics/metrics.go + its call sites (Run.Do: Reset at the start of every run;     *)
(* ActiveScenario.Setup: one setup sample; ActiveScenario.Run / RecordDroppedIteration: one          *)
(* iteration sample each).  Two summary vectors keyed by label values; a sample is recorded under    *)
(* {test, result} (setup) or {test, stage = "iteration", result} (iteration) plus every configured   *)
(* static label paired with its own value.                                                            *)
EXTENDS Integers, FiniteSets, Sequences, TLC

CONSTANTS MaxRuns, MaxIters, StaticKeys, StaticVal(_),
          PushKind       \* "put": a push REPLACES the whole group on the gateway (what Run.pushMetrics does);
                         \* "post": it replaces only the metric families present in the push (mutant configuration)

Results == {"success", "fail", "dropped"}
VARIABLES setupVec,      \* function: label record -> sample count (setup family)
          iterVec,       \* function: label record -> sample count (iteration family)
          runNo, phase, truth, setupOK, iters,
          gateway,       \* what the push gateway holds for this job's group: [setup |-> vector, iter |-> vector]
          pushed         \* the push that follows the teardown has been made
vars == <<setupVec, iterVec, runNo, phase, truth, setupOK, iters, gateway, pushed>>

Labels(res, withStage) ==
    [test |-> "scn", result |-> res, stage |-> IF withStage THEN "iteration" ELSE "", static |-> [k \in StaticKeys |-> StaticVal(k)]]
Bump(vec, l) == IF l \in DOMAIN vec THEN [vec EXCEPT ![l] = @ + 1] ELSE vec @@ (l :> 1)
Zero == [r \in Results |-> 0]

Init == /\ setupVec = <<>> /\ iterVec = <<>> /\ runNo = 0 /\ phase = "idle" /\ truth = Zero /\ setupOK = TRUE /\ iters = 0
        /\ gateway = [setup |-> <<>>, iter |-> <<>>] /\ pushed = FALSE

\* Run.pushMetrics: an empty vector produces no metric family at all in the push
Pushed == IF PushKind = "put" THEN [setup |-> setupVec, iter |-> iterVec]
          ELSE [setup |-> IF setupVec = <<>> THEN gateway.setup ELSE setupVec,
                iter |-> IF iterVec = <<>> THEN gateway.iter ELSE iterVec]

\* Run.Do: metrics.Reset()
StartRun == /\ phase = "idle" /\ runNo < MaxRuns /\ runNo' = runNo + 1
            /\ setupVec' = <<>> /\ iterVec' = <<>>        \* earlier runs are not mixed in
            /\ truth' = Zero /\ iters' = 0 /\ phase' = "setup" /\ pushed' = FALSE /\ UNCHANGED <<setupOK, gateway>>
\* ActiveScenario.Setup: exactly one sample labelled with the outcome
RecordSetup(ok) == /\ phase = "setup" /\ setupOK' = ok
                   /\ setupVec' = Bump(setupVec, Labels(IF ok THEN "success" ELSE "fail", FALSE))
                   /\ phase' = IF ok THEN "iterating" ELSE "done"
                   /\ UNCHANGED <<iterVec, runNo, truth, iters, gateway, pushed>>
RecordIteration(r) == /\ phase = "iterating" /\ iters < MaxIters /\ iters' = iters + 1
                      /\ iterVec' = Bump(iterVec, Labels(r, TRUE))
                      /\ truth' = [truth EXCEPT ![r] = @ + 1]
                      /\ UNCHANGED <<setupVec, runNo, phase, setupOK, gateway, pushed>>
EndRun == phase = "iterating" /\ phase' = "done" /\ UNCHANGED <<setupVec, iterVec, runNo, truth, setupOK, iters, gateway, pushed>>
\* pushes: after setup, periodically while iterating, and - the one that counts - after the teardown
Push == /\ phase \in {"iterating", "done"} /\ gateway' = Pushed /\ pushed' = (phase = "done")
        /\ UNCHANGED <<setupVec, iterVec, runNo, phase, truth, setupOK, iters>>
NextRun == phase = "done" /\ pushed /\ phase' = "idle" /\ UNCHANGED <<setupVec, iterVec, runNo, truth, setupOK, iters, gateway, pushed>>

Next == StartRun \/ (\E ok \in BOOLEAN : RecordSetup(ok)) \/ (\E r \in Results : RecordIteration(r)) \/ EndRun \/ Push \/ NextRun
Spec == Init /\ [][Next]_vars

Count(vec, res) == LET S == {l \in DOMAIN vec : l.result = res} IN
                   IF S = {} THEN 0 ELSE vec[CHOOSE l \in S : TRUE]
\* at Gather time (phase done): the exported samples mirror THIS run
MirrorsRun == phase = "done" =>
    /\ \A r \in Results : Count(iterVec, r) = truth[r]
    /\ Count(setupVec, IF setupOK THEN "success" ELSE "fail") = 1
    /\ Count(setupVec, IF setupOK THEN "fail" ELSE "success") = 0
\* every series carries the scenario name and each static label paired with its own value
LabelsRight == \A l \in (DOMAIN setupVec) \cup (DOMAIN iterVec) :
    l.test = "scn" /\ \A k \in StaticKeys : l.static[k] = StaticVal(k)
\* what the gateway shows once the run is over is what the registry holds: this run, nothing of earlier ones
GatewayMirrorsRun == (phase = "done" /\ pushed) =>
    /\ \A r \in Results : Count(gateway.iter, r) = truth[r]
    /\ Count(gateway.setup, IF setupOK THEN "success" ELSE "fail") = 1
    /\ Count(gateway.setup, IF setupOK THEN "fail" ELSE "success") = 0
OneSeriesPerResult == \A l1, l2 \in DOMAIN iterVec : l1.result = l2.result => l1 = l2
=============================================================================
