------------------------------- MODULE Metrics -------------------------------
(* C16 — internal/metrics/metrics.go + its call sites (Run.Do: Reset at the start of every run;     *)
(* ActiveScenario.Setup: one setup sample; ActiveScenario.Run / RecordDroppedIteration: one          *)
(* iteration sample each).  Two summary vectors keyed by label values; a sample is recorded under    *)
(* {test, result} (setup) or {test, stage = "iteration", result} (iteration) plus every configured   *)
(* static label paired with its own value.                                                            *)
EXTENDS Integers, FiniteSets, Sequences, TLC

CONSTANTS MaxRuns, MaxIters, StaticKeys, StaticVal(_)

Results == {"success", "fail", "dropped"}
VARIABLES setupVec,      \* function: label record -> sample count (setup family)
          iterVec,       \* function: label record -> sample count (iteration family)
          runNo, phase, truth, setupOK, iters
vars == <<setupVec, iterVec, runNo, phase, truth, setupOK, iters>>

Labels(res, withStage) ==
    [test |-> "scn", result |-> res, stage |-> IF withStage THEN "iteration" ELSE "", static |-> [k \in StaticKeys |-> StaticVal(k)]]
Bump(vec, l) == IF l \in DOMAIN vec THEN [vec EXCEPT ![l] = @ + 1] ELSE vec @@ (l :> 1)
Zero == [r \in Results |-> 0]

Init == /\ setupVec = <<>> /\ iterVec = <<>> /\ runNo = 0 /\ phase = "idle" /\ truth = Zero /\ setupOK = TRUE /\ iters = 0

\* Run.Do: metrics.Reset()
StartRun == /\ phase = "idle" /\ runNo < MaxRuns /\ runNo' = runNo + 1
            /\ setupVec' = <<>> /\ iterVec' = <<>>        \* earlier runs are not mixed in
            /\ truth' = Zero /\ iters' = 0 /\ phase' = "setup" /\ UNCHANGED setupOK
\* ActiveScenario.Setup: exactly one sample labelled with the outcome
RecordSetup(ok) == /\ phase = "setup" /\ setupOK' = ok
                   /\ setupVec' = Bump(setupVec, Labels(IF ok THEN "success" ELSE "fail", FALSE))
                   /\ phase' = IF ok THEN "iterating" ELSE "done"
                   /\ UNCHANGED <<iterVec, runNo, truth, iters>>
RecordIteration(r) == /\ phase = "iterating" /\ iters < MaxIters /\ iters' = iters + 1
                      /\ iterVec' = Bump(iterVec, Labels(r, TRUE))
                      /\ truth' = [truth EXCEPT ![r] = @ + 1]
                      /\ UNCHANGED <<setupVec, runNo, phase, setupOK>>
EndRun == phase = "iterating" /\ phase' = "done" /\ UNCHANGED <<setupVec, iterVec, runNo, truth, setupOK, iters>>
NextRun == phase = "done" /\ phase' = "idle" /\ UNCHANGED <<setupVec, iterVec, runNo, truth, setupOK, iters>>

Next == StartRun \/ (\E ok \in BOOLEAN : RecordSetup(ok)) \/ (\E r \in Results : RecordIteration(r)) \/ EndRun \/ NextRun
Spec == Init /\ [][Next]_vars

Count(vec, res) == LET S == {l \in DOMAIN vec : l.result = res} IN
                   IF S = {} THEN 0 ELSE vec[CHOOSE l \in S : TRUE]
\* at Gather time (phase done): the exported samples mirror THIS run
MirrorsRun == phase = "done" =>
    /\ \A r \in Results : Count(iterVec, r) = truth[r]
    /\ Count(setupVec, IF setupOK THEN "success" ELSE "fail") = 1
    /\ Count(setupVec, IF setupOK THEN "fail" ELSE "success") = 0
\* every series carries the scenario name and each static label paired with its own value
LabelsRight == \A l \in (DOMAIN setupVec) \cup (DOMAIN iterVec) :
    l.test = "scn" /\ \A k \in StaticKeys : l.static[k] = StaticVal(k)
OneSeriesPerResult == \A l1, l2 \in DOMAIN iterVec : l1.result = l2.result => l1 = l2
=============================================================================
