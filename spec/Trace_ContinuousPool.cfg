INIT TInit
NEXT TNext
CONSTANTS ParamSet = {}  AllowCancel = TRUE  BodiesEnd = TRUE  SyncFlag = TRUE
INVARIANTS Accepted
CHECK_DEADLOCK FALSE
