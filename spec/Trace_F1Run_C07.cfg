INIT Init
NEXT Next
INVARIANTS OK_C07 OK_MACHINERY
CHECK_DEADLOCK FALSE
