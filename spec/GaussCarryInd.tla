--------------------------- MODULE GaussCarryInd ---------------------------
(* Unbounded version of GaussCarry for Apalache: any ideal rate x in Nat (units of 1/Q), any number *)
(* of ticks.  IndInv is inductive, hence CarryExact / WithinOne / NonNegative hold in every         *)
(* reachable state, not only within the TLC bounds of MC_GaussCarry.cfg.                             *)
EXTENDS Integers

Q == 1000000

VARIABLES
    \* @type: Int;
    rem,
    \* @type: Int;
    sumX,
    \* @type: Int;
    sumOut,
    \* @type: Int;
    lastOut

Init == rem = 0 /\ sumX = 0 /\ sumOut = 0 /\ lastOut = 0
Tick(x) == /\ lastOut' = (x + rem) \div Q
           /\ rem' = (x + rem) % Q
           /\ sumX' = sumX + x /\ sumOut' = sumOut + (x + rem) \div Q
Next == \E x \in Nat : Tick(x)

CarryExact == Q * sumOut + rem = sumX
NonNegative == lastOut >= 0 /\ rem >= 0 /\ rem < Q
WithinOne == Q * sumOut <= sumX /\ sumX < Q * (sumOut + 1)

IndInv == CarryExact /\ NonNegative /\ WithinOne
IndInit == rem \in Int /\ sumX \in Int /\ sumOut \in Int /\ lastOut \in Int /\ IndInv
=============================================================================
