INIT Init
NEXT Next
INVARIANTS Accepted EvalOnce Conserved
CHECK_DEADLOCK FALSE
