----------------------------- MODULE RunPhases -----------------------------
(* The control flow of ONE whole run (internal/run/test_runner.go Run.Do and Run.run) at phase grain, *)
(* as a generative specification: the environment decides whether setup succeeds, how many iterations  *)
(* are in flight, what ends triggering and whether the in-flight iterations finish before the          *)
(* completion timeout.  Every output of the run is an action:                                           *)
(*                                                                                                      *)
(*   setup --SetupDone(ok)--> trigger --EndMsg(kind)--> waiting --(all finished | TimeoutMsg)-->        *)
(*   teardown --SetupCleanups--> summary --Summary--> return --Return--> done                           *)
(*                                                                                                      *)
(* with  EndMsg("maxiter")  only once the pool has completed (nothing in flight) and going straight to   *)
(* teardown, and a failed setup going straight to teardown.  Iterations start only between a successful  *)
(* setup and the end of waiting; once the run has left `waiting` without a timeout nothing is in flight  *)
(* and nothing starts.  Checked by TLC (MC_RunPhases.cfg: safety + termination under fairness) and       *)
(* bound to the code by Trace_RunPhases: the recorded events of every whole real run must be a           *)
(* behaviour of this specification.                                                                      *)
EXTENDS Integers

CONSTANT MaxLive
VARIABLES ph, setupOK, live, endKind, timedOut, started
vars == <<ph, setupOK, live, endKind, timedOut, started>>

Phases == {"setup", "trigger", "waiting", "teardown", "summary", "return", "done"}
Init == ph = "setup" /\ setupOK = FALSE /\ live = 0 /\ endKind = "" /\ timedOut = FALSE /\ started = 0

CanSetupDone == ph = "setup"
SetupDone(ok) == /\ CanSetupDone
                 /\ setupOK' = ok
                 /\ ph' = IF ok THEN "trigger" ELSE "teardown"
                 /\ UNCHANGED <<live, endKind, timedOut, started>>

\* a worker may still pick up an iteration while the run is waiting (it has not seen the stop flag yet)
CanIterStart == (ph \in {"trigger", "waiting"} /\ setupOK) \/ (timedOut /\ ph # "setup")
IterStart == /\ CanIterStart /\ live' = live + 1 /\ started' = started + 1
             /\ UNCHANGED <<ph, setupOK, endKind, timedOut>>

CanIterEnd == live > 0
IterEnd == /\ CanIterEnd /\ live' = live - 1 /\ UNCHANGED <<ph, setupOK, endKind, timedOut, started>>

\* why triggering stopped is said exactly once; the limit message only when the pool has completed
CanEndMsg(k) == ph = "trigger" /\ (k = "maxiter" => live = 0)
EndMsg(k) == /\ CanEndMsg(k) /\ endKind' = k
             /\ ph' = IF k = "maxiter" THEN "teardown" ELSE "waiting"
             /\ UNCHANGED <<setupOK, live, timedOut, started>>

CanTimeoutMsg == ph = "waiting" /\ live > 0
TimeoutMsg == /\ CanTimeoutMsg /\ timedOut' = TRUE /\ ph' = "teardown"
              /\ UNCHANGED <<setupOK, live, endKind, started>>

\* the cleanups registered by setup: after the wait is over (everything finished, or the timeout was announced)
CanSetupCleanups == ph = "teardown" \/ (ph = "waiting" /\ live = 0)
SetupCleanups == /\ CanSetupCleanups /\ ph' = "summary" /\ UNCHANGED <<setupOK, live, endKind, timedOut, started>>

CanSummary == ph = "summary"
Summary == /\ CanSummary /\ ph' = "return" /\ UNCHANGED <<setupOK, live, endKind, timedOut, started>>

CanReturn == ph = "return"
Return == /\ CanReturn /\ ph' = "done" /\ UNCHANGED <<setupOK, live, endKind, timedOut, started>>

Next == \/ \E ok \in BOOLEAN : SetupDone(ok)
        \/ (live < MaxLive /\ started < 2 * MaxLive /\ IterStart) \/ IterEnd
        \/ \E k \in {"maxdur", "maxiter", "interrupt"} : EndMsg(k)
        \/ TimeoutMsg \/ SetupCleanups \/ Summary \/ Return
        \/ (ph = "done" /\ UNCHANGED vars)
\* the run's own steps are fair; the environment must let triggering end (every real trigger has a deadline)
\* and either finish the in-flight iterations or let the completion timeout fire
Spec == Init /\ [][Next]_vars
             /\ WF_vars(\E ok \in BOOLEAN : SetupDone(ok))
             /\ WF_vars(\E k \in {"maxdur", "interrupt"} : EndMsg(k))
             /\ WF_vars(TimeoutMsg) /\ WF_vars(SetupCleanups) /\ WF_vars(Summary) /\ WF_vars(Return)

(* Properties *)
TypeOK == ph \in Phases /\ live \in 0..MaxLive /\ endKind \in {"", "maxdur", "maxiter", "interrupt"}
\* C06: no iteration without a successful setup; C05: nothing in flight once the run is past waiting, unless it said so
NoIterationWithoutSetup == (started > 0) => setupOK
QuietAfterWaiting == (ph \in {"summary", "return", "done"} /\ ~timedOut) => live = 0
\* the reason is given exactly when iterations were triggered at all
ReasonGiven == (ph \in {"summary", "return", "done"}) => ((endKind # "") = setupOK)
TimeoutOnlyAfterStop == timedOut => endKind \in {"maxdur", "interrupt"}
\* C05: every run returns
Terminates == <>(ph = "done")
\* action property: phases only move forward
Rank(p) == CASE p = "setup" -> 0 [] p = "trigger" -> 1 [] p = "waiting" -> 2 [] p = "teardown" -> 3
             [] p = "summary" -> 4 [] p = "return" -> 5 [] p = "done" -> 6
Forward == [][Rank(ph') >= Rank(ph)]_vars
=============================================================================
