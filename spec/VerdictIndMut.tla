---------------------------- MODULE VerdictIndMut ----------------------------
(* Unbounded version of Verdict's theorem table for Apalache: all counts in Nat, any max-failures,  *)
(* every max-failures-rate 0..100.  `Theorems` is checked in the (arbitrary) initial state, i.e. for *)
(* every combination of counts and options, not only the 41 160 rows TLC enumerates.                 *)
EXTENDS Integers

Iterations(s, f, d) == s + f + d
ToleranceExceeded(s, f, d, maxF, maxFR) ==
    \/ maxF = 0 /\ maxFR = 0 /\ f > 0
    \/ maxF > 0 /\ f > maxF
    \/ maxFR > 0 /\ 100 * f >= maxFR * Iterations(s, f, d)
Failed(s, f, d, nerr, ign, maxF, maxFR) ==
    \/ nerr > 0
    \/ ~ign /\ d > 0
    \/ ToleranceExceeded(s, f, d, maxF, maxFR)

VARIABLES
    \* @type: Int;
    s,
    \* @type: Int;
    f,
    \* @type: Int;
    d,
    \* @type: Int;
    nerr,
    \* @type: Bool;
    ign,
    \* @type: Int;
    maxF,
    \* @type: Int;
    maxFR

Init == /\ s \in Nat /\ f \in Nat /\ d \in Nat /\ nerr \in Nat /\ ign \in BOOLEAN
        /\ maxF \in Nat /\ maxFR \in 0..100
Next == UNCHANGED <<s, f, d, nerr, ign, maxF, maxFR>>

V == Failed(s, f, d, nerr, ign, maxF, maxFR)
MonotoneInFailures == V => Failed(s, f + 1, d, nerr, ign, maxF, maxFR)
MonotoneInSuccess == ~V => ~Failed(s + 1, f, d, nerr, ign, maxF, maxFR)
ZeroIterationsPass == (s + f + d = 0 /\ nerr = 0) => ~V
ErrorsFail == nerr > 0 => V
DroppedFail == (d > 0 /\ ~ign) => V
IgnoreOnlyDropped == Failed(s, f, d, nerr, TRUE, maxF, maxFR) => Failed(s, f, d, nerr, FALSE, maxF, maxFR)
NoToleranceStrict == (maxF = 0 /\ maxFR = 0 /\ f > 0) => V
NoFailuresNeverExceed == f = 0 => ~ToleranceExceeded(s, f, d, maxF, maxFR)
ExactShareWithinTolerance ==
    (maxFR > 0 /\ maxF = 0 /\ nerr = 0 /\ (ign \/ d = 0) /\ 100 * f = maxFR * (s + f + d)) => ~V
OneMoreFailureExceeds ==
    (maxFR > 0 /\ maxFR < 100 /\ 100 * f = maxFR * (s + f + d) /\ s > 0) => Failed(s - 1, f + 1, d, nerr, ign, maxF, maxFR)

Theorems == /\ MonotoneInFailures /\ MonotoneInSuccess /\ ZeroIterationsPass /\ ErrorsFail /\ DroppedFail
            /\ IgnoreOnlyDropped /\ NoToleranceStrict /\ NoFailuresNeverExceed /\ ExactShareWithinTolerance
            /\ OneMoreFailureExceeds
=============================================================================
