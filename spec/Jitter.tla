------------------------------ MODULE Jitter ------------------------------
(* C13 — jitter (internal/trigger/api/iteration_jitter.go WithJitter), entirely in integers.     *)
(*   factor f in [1-j, 1+j];  req = rate + balance;  out = max(0, round(req * f));                 *)
(*   balance' = req - out.                                                                          *)
(* The code's balance is a float64 but always integer-valued (0, then int + int - int).            *)
(* j = J / S  where S = 10000, i.e. J is the jitter percentage times 100 (12.5 % -> J = 1250).     *)
EXTENDS Integers

S == 10000

CONSTANTS JSet,      \* jitter values explored (scaled)
          MaxRate,   \* largest un-jittered rate explored
          MaxSteps

VARIABLES J, b, sumIn, sumOut, steps, rmax
vars == <<J, b, sumIn, sumOut, steps, rmax>>

Abs(x) == IF x < 0 THEN -x ELSE x
Min(a, c) == IF a < c THEN a ELSE c
Max(a, c) == IF a > c THEN a ELSE c

\* out = max(0, round(x)) for some x between req*(1-j) and req*(1+j); comparisons scaled by 2S,
\* the "+ 2" is one part in 10^4 of float slack on the rounding boundary.
OutAllowed(jj, req, out) ==
    LET A  == req * (S - jj)
        B  == req * (S + jj)
        lo == Min(A, B)
        hi == Max(A, B)
    IN \* zero jitter is the identity on whatever the rate function returns - also a negative value (a profile dipping
       \* below zero); with jitter a negative request yields 0 and the debt is carried like any other remainder
       IF jj = 0 THEN out = req
       ELSE /\ out >= 0
            /\ 2 * S * out >= 2 * lo - S - 2
            /\ 2 * S * out <= Max(0, 2 * hi + S + 2)

Step(r, out) ==
    /\ OutAllowed(J, r + b, out)
    /\ b' = r + b - out
    /\ sumIn' = sumIn + r
    /\ sumOut' = sumOut + out
    /\ steps' = steps + 1
    /\ rmax' = Max(rmax, r)
    /\ UNCHANGED J

Init == J \in JSet /\ b = 0 /\ sumIn = 0 /\ sumOut = 0 /\ steps = 0 /\ rmax = 0
Next == steps < MaxSteps /\ \E r \in 0..MaxRate, out \in 0..(3 * MaxRate * MaxSteps) : Step(r, out)
Spec == Init /\ [][Next]_vars

(* Properties *)
CarryExact    == sumIn - sumOut = b                      \* nothing is created or lost, only deferred
\* closed-form fixed point of the step relation: |b| <= (j rmax + 1/2) / (1 - j)   (for j < 1)
BalanceBounded == (Abs(J) < S) => 2 * Abs(b) * (S - Abs(J)) <= 2 * Abs(J) * rmax + S + 4
ZeroIsIdentity == (J = 0) => (b = 0 /\ sumIn = sumOut)
=============================================================================
