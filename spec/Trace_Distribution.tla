------------------------ MODULE Trace_Distribution ------------------------
(* Validates logs of the REAL api.NewDistribution against Distribution.                          *)
(* One ndjson line = one trace:                                                                   *)
(*  {"dist":"regular|random|none","in_ms":I,"frac":0|1,"out_ms":O,"out_frac":0|1,"noevals":bool,  *)
(*   "ev":[{"out":v,"rep":k,"evals":E,"rate":R}, ...]}                                            *)
(* out = value handed out by k consecutive calls (run-length encoded, never across a cycle         *)
(* boundary), evals = number of evaluations of the underlying rate function after the first of     *)
(* those calls, rate = value the underlying function returned last.                                *)
EXTENDS Integers, Sequences, Json, IOUtils, TLC

T == ndJsonDeserialize(IOEnv.TRACE_FILE)

VARIABLES kind, n, rem, cycleRate, emitted, lo, hi, evals, cycles, acc, tr, i, ok
D == INSTANCE Distribution WITH MaxN <- 1, MaxRate <- 1, MaxCycles <- 1, Q <- 10

\* what the documentation says the distributor must be for this configuration
IsIdentity(t) == t.dist = "none" \/ t.in_ms < 100 \/ (t.in_ms = 100 /\ t.frac = 0)
KindOf(t) == IF IsIdentity(t) THEN "identity" ELSE t.dist
NOf(t) == IF IsIdentity(t) THEN 1 ELSE t.in_ms \div 100

\* returned interval: unchanged for the identity cases, 100 ms otherwise
HeaderOK(t) == IF IsIdentity(t) THEN t.out_ms = t.in_ms /\ t.out_frac = t.frac
               ELSE t.out_ms = 100 /\ t.out_frac = 0

Init == /\ tr \in 1..Len(T) /\ i = 0
        /\ ok = HeaderOK(T[tr])
        /\ kind = KindOf(T[tr]) /\ n = NOf(T[tr])
        /\ rem = 0 /\ cycleRate = 0 /\ emitted = 0 /\ lo = -1 /\ hi = 0
        /\ evals = 0 /\ cycles = 0 /\ acc = 0

Next == /\ i < Len(T[tr].ev)
        /\ LET e == T[tr].ev[i + 1] IN
             /\ i' = i + 1
             /\ D!Apply(e.rate, e.out, e.rep)
             /\ ok' = (/\ D!Allowed(e.rate, e.out, e.rep)
                       \* evaluated once per cycle, at its start (not visible when the underlying function is f1's own)
                       /\ (T[tr].noevals \/ e.evals = evals + (IF rem = 0 THEN 1 ELSE 0)))
             /\ UNCHANGED <<tr, acc>>

Accepted == ok
EvalOnce == D!EvalOncePerCycle
Conserved == D!CycleConserved
=============================================================================
