------------------------- MODULE Trace_ConfigPlan -------------------------
(* Each observation: an abstract config (rendered to YAML by the harness), the instant `now`, and   *)
(* what the REAL ParseConfigFile / file.Rate(...).New produced.                                       *)
EXTENDS ConfigPlan, Json, IOUtils, TLC
Obs == ndJsonDeserialize(IOEnv.TRACE_FILE)
VARIABLE l
Init == l \in 1..Len(Obs)
Next == UNCHANGED l
RowOK(r) ==
    /\ r.panicked = FALSE
    /\ r.accepted = Accept(r.cfg)
    /\ r.accepted =>
          /\ Len(r.plan) = Len(Plan(r.cfg))
          /\ \A j \in 1..Len(r.plan) : r.plan[j] = Plan(r.cfg)[j]               \* kept stages, order, defaults
          /\ r.total_ms = TotalDuration(r.cfg)                                  \* all stages, kept or not
          /\ r.opt = r.lim                                                      \* limits one-to-one
          /\ (~r.cfg.has_start \/ r.cfg.min_dur < 0 \/ IsSuffixPlan(r.cfg))
Inv == RowOK(Obs[l])
=============================================================================
