INIT Init
NEXT Next
CONSTANTS MaxWorkers = 3  MaxIterC = 0
INVARIANTS Mark StuckMark NoOverCount MutexOK
CHECK_DEADLOCK FALSE
