-------------------------- MODULE Trace_Combined --------------------------
(* C20 under the config-file trigger, where iterations outlive the stage (and the pool) that started them:  *)
(* one observation per iteration of a two-component combined scenario.                                       *)
(*   id1 / id2 = the iteration id each component read from the handle it was given ("" = not invoked,        *)
(*   "?" = component 2 was invoked on a handle no component 1 had just used), order = who ran, in sequence,  *)
(*   stopped = component 1 stopped the iteration (FailNow).                                                  *)
(* Every iteration invokes the components in order with THAT iteration's handle; a stopped iteration does    *)
(* not reach component 2 (the same statement Lifecycle makes for the users and constant triggers).           *)
EXTENDS Integers, Sequences, Json, IOUtils, TLC
Obs == ndJsonDeserialize(IOEnv.TRACE_FILE)
VARIABLE l
Init == l \in 1..Len(Obs)
Next == UNCHANGED l
RowOK(r) ==
    /\ r.err = ""
    /\ r.same_handle                                   \* component 2 found its iteration's handle
    /\ IF r.stopped THEN r.order = "1" /\ r.id2 = ""    \* stop scope: later components do not run in that iteration
       ELSE r.order = "12" /\ r.id2 = r.id1             \* in order, and the handle still names the same iteration
Inv == RowOK(Obs[l])
=============================================================================
