SPECIFICATION Spec
CONSTANTS
  NComp = 2
  NIter = 3
  SetupProgs <- RichSetup
  BodyProgs <- RichBody
  CleanupProgs <- RichCleanup
INVARIANTS SetupOnceFirst NoIterationAfterFailedSetup IterCleanupsLIFOOnce SetupCleanupsLast TeardownFailureFailsRun Classified ComponentsInOrder Emit
CHECK_DEADLOCK FALSE
