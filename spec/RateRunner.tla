----------------------------- MODULE RateRunner -----------------------------
(* C18 (and the progress-runner part of C05) — internal/raterun/runner.go.                          *)
(* One goroutine selects on: restart channel (capacity 1), next-schedule timer, current schedule's  *)
(* ticker (capacity-1 channel: a tick that finds one buffered is lost), context done.                *)
(* StopWaits = TRUE : `stopped` is closed by the goroutine when it exits (repaired code).            *)
(* StopWaits = FALSE: `stopped` is closed when Start returns (pinned code) - Stop never waits.       *)
EXTENDS Integers

CONSTANTS NSched,        \* number of schedules
          MaxTicks,      \* bound on ticker fires explored
          StopWaits

VARIABLES gpc,           \* "idle" (not started) | "select" | "infn" | "exited"
          cancelled, stoppedClosed, restartBuf, idx,
          tickDue, nextDue, nextArmed,
          stopCalled, stopRet, fires,
          invocations, afterStop, beforeStart, lastFreqIdx
vars == <<gpc, cancelled, stoppedClosed, restartBuf, idx, tickDue, nextDue, nextArmed, stopCalled, stopRet, fires,
          invocations, afterStop, beforeStart, lastFreqIdx>>

Init == /\ gpc = "idle" /\ cancelled = FALSE /\ stoppedClosed = FALSE /\ restartBuf = 0 /\ idx = -1
        /\ tickDue = FALSE /\ nextDue = FALSE /\ nextArmed = TRUE      \* NewTimer(list[0].StartDelay) at construction
        /\ stopCalled = FALSE /\ stopRet = FALSE /\ fires = 0
        /\ invocations = 0 /\ afterStop = FALSE /\ beforeStart = FALSE /\ lastFreqIdx = -1

Start == /\ gpc = "idle" /\ gpc' = "select"
         /\ stoppedClosed' = IF StopWaits THEN stoppedClosed ELSE TRUE     \* defer close(r.stopped) in the CALLER
         /\ UNCHANGED <<cancelled, restartBuf, idx, tickDue, nextDue, nextArmed, stopCalled, stopRet, fires, invocations,
                        afterStop, beforeStart, lastFreqIdx>>
\* time passes: the armed next-schedule timer fires / the active ticker fires
TimerFire == /\ nextArmed /\ ~nextDue /\ nextDue' = TRUE /\ nextArmed' = FALSE
             /\ UNCHANGED <<gpc, cancelled, stoppedClosed, restartBuf, idx, tickDue, stopCalled, stopRet, fires, invocations,
                            afterStop, beforeStart, lastFreqIdx>>
TickFire == /\ idx >= 0 /\ gpc # "exited" /\ fires < MaxTicks /\ fires' = fires + 1 /\ tickDue' = TRUE   \* lost if one is buffered
            /\ UNCHANGED <<gpc, cancelled, stoppedClosed, restartBuf, idx, nextDue, nextArmed, stopCalled, stopRet, invocations,
                           afterStop, beforeStart, lastFreqIdx>>
\* start(i): new ticker (buffer emptied), timer re-armed for schedule i+1 if there is one
StartSched(i) == /\ idx' = i /\ tickDue' = FALSE /\ nextDue' = FALSE /\ nextArmed' = (i + 1 < NSched)
SelRestart == /\ gpc = "select" /\ restartBuf = 1 /\ restartBuf' = 0 /\ StartSched(0)
              /\ UNCHANGED <<gpc, cancelled, stoppedClosed, stopCalled, stopRet, fires, invocations, afterStop, beforeStart, lastFreqIdx>>
SelNext == /\ gpc = "select" /\ nextDue
           /\ IF idx + 1 < NSched THEN StartSched(idx + 1) ELSE UNCHANGED <<idx, tickDue, nextArmed>> /\ nextDue' = FALSE
           /\ UNCHANGED <<gpc, cancelled, stoppedClosed, restartBuf, stopCalled, stopRet, fires, invocations, afterStop, beforeStart, lastFreqIdx>>
SelTick == /\ gpc = "select" /\ tickDue /\ tickDue' = FALSE /\ gpc' = "infn"
           /\ invocations' = invocations + 1 /\ lastFreqIdx' = idx
           /\ afterStop' = (afterStop \/ stopRet)
           /\ UNCHANGED <<cancelled, stoppedClosed, restartBuf, idx, nextDue, nextArmed, stopCalled, stopRet, fires, beforeStart>>
FnReturn == /\ gpc = "infn" /\ gpc' = "select"
            /\ UNCHANGED <<cancelled, stoppedClosed, restartBuf, idx, tickDue, nextDue, nextArmed, stopCalled, stopRet, fires,
                           invocations, afterStop, beforeStart, lastFreqIdx>>
SelDone == /\ gpc = "select" /\ cancelled /\ gpc' = "exited"
           /\ tickDue' = FALSE /\ nextDue' = FALSE /\ nextArmed' = FALSE                 \* schedules.stop()
           /\ stoppedClosed' = IF StopWaits THEN TRUE ELSE stoppedClosed               \* closed by the goroutine on exit
           /\ UNCHANGED <<cancelled, restartBuf, idx, stopCalled, stopRet, fires, invocations, afterStop, beforeStart, lastFreqIdx>>
Restart == /\ restartBuf = 0 /\ restartBuf' = 1
           /\ UNCHANGED <<gpc, cancelled, stoppedClosed, idx, tickDue, nextDue, nextArmed, stopCalled, stopRet, fires, invocations,
                          afterStop, beforeStart, lastFreqIdx>>
StopCancel == /\ gpc # "idle" /\ ~stopCalled /\ stopCalled' = TRUE /\ cancelled' = TRUE
              /\ UNCHANGED <<gpc, stoppedClosed, restartBuf, idx, tickDue, nextDue, nextArmed, stopRet, fires, invocations,
                             afterStop, beforeStart, lastFreqIdx>>
StopReturn == /\ stopCalled /\ ~stopRet /\ stoppedClosed /\ stopRet' = TRUE
              /\ UNCHANGED <<gpc, cancelled, stoppedClosed, restartBuf, idx, tickDue, nextDue, nextArmed, stopCalled, fires,
                             invocations, afterStop, beforeStart, lastFreqIdx>>
CtxCancel == /\ ~cancelled /\ cancelled' = TRUE
             /\ UNCHANGED <<gpc, stoppedClosed, restartBuf, idx, tickDue, nextDue, nextArmed, stopCalled, stopRet, fires, invocations,
                            afterStop, beforeStart, lastFreqIdx>>

Goroutine == SelRestart \/ SelNext \/ SelTick \/ FnReturn \/ SelDone
Next == Start \/ TimerFire \/ TickFire \/ Goroutine \/ Restart \/ StopCancel \/ StopReturn \/ CtxCancel
\* Go's select picks uniformly among ready cases: a continuously-or-repeatedly ready Done case is eventually taken
Spec == Init /\ [][Next]_vars /\ WF_vars(Goroutine) /\ SF_vars(SelDone) /\ WF_vars(FnReturn) /\ WF_vars(StopReturn)

(* Properties *)
OnlyAfterStart == invocations > 0 => gpc # "idle"
\* once Stop has returned the function is not executing and is never invoked again
QuiescentAfterStop == stopRet => (gpc # "infn" /\ ~afterStop)
IdxInRange == idx \in -1..(NSched - 1)
\* after Stop or cancellation the goroutine ends, and Stop returns
GoroutineEnds == (cancelled /\ gpc # "idle") ~> (gpc = "exited")
StopReturns == stopCalled ~> stopRet
=============================================================================
