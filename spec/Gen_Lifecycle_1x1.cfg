SPECIFICATION Spec
CONSTANTS
  NComp = 1
  NIter = 1
  SetupProgs <- RichSetup
  BodyProgs <- RichBody
  CleanupProgs <- RichCleanup
INVARIANTS SetupOnceFirst NoIterationAfterFailedSetup IterCleanupsLIFOOnce SetupCleanupsLast TeardownFailureFailsRun Classified ComponentsInOrder Emit
CHECK_DEADLOCK FALSE
