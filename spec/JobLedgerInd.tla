---------------------------- MODULE JobLedgerInd ----------------------------
(* The arithmetic core of C02, unbounded (Apalache): the trigger pool's pending-request counter         *)
(* (internal/workers/trigger_pool.go jobCounter) with ANY number of workers, ticks of ANY size and any   *)
(* interleaving of the two atomic operations                                                            *)
(*    set(n)  = Swap(n): the positive leftover is reported dropped                                        *)
(*    take()  = Add(-1) >= 0: a worker starts an iteration iff the counter was positive                   *)
(* The counter may go negative (idle workers over-take); conservation still holds:                        *)
(*    requested = started + dropped + max(pending, 0)                                                     *)
(* IndInv is inductive, so it holds in every reachable state for every schedule - TLC's TriggerPool       *)
(* configurations check the same ledger only for 2-3 workers and a few ticks.                             *)
EXTENDS Integers

VARIABLES
    \* @type: Int;
    pending,
    \* @type: Int;
    requested,
    \* @type: Int;
    started,
    \* @type: Int;
    dropped

Pos(x) == IF x > 0 THEN x ELSE 0

Init == pending = 0 /\ requested = 0 /\ started = 0 /\ dropped = 0
Tick(n) == /\ dropped' = dropped + Pos(pending)
           /\ pending' = n /\ requested' = requested + n /\ started' = started
Take == /\ pending' = pending - 1
        /\ started' = IF pending >= 1 THEN started + 1 ELSE started
        /\ UNCHANGED <<requested, dropped>>
Next == (\E n \in Nat : Tick(n)) \/ Take

Conservation == requested = started + dropped + Pos(pending)
IndInv == Conservation /\ requested >= 0 /\ started >= 0 /\ dropped >= 0
IndInit == pending \in Int /\ requested \in Int /\ started \in Int /\ dropped \in Int /\ IndInv
=============================================================================
