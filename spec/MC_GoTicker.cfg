SPECIFICATION Spec
CONSTANTS Period = 3  Horizon = 14  Values = {0, 2}
INVARIANTS Cadence EveryEvalPublished
CHECK_DEADLOCK FALSE
