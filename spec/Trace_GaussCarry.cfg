INIT Init
NEXT Next
INVARIANT Accepted
CHECK_DEADLOCK FALSE
