INIT Init
NEXT Next
CONSTANTS MaxWorkers = 3  MaxIterC = 4
INVARIANTS Accepted NoOverCount MutexOK
CHECK_DEADLOCK FALSE
