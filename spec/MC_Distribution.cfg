SPECIFICATION Spec
CONSTANTS MaxN = 5  MaxRate = 6  MaxCycles = 2  Q = 10
INVARIANTS EvalOncePerCycle NeverOver NonNegative RegularEven IdentityPass
CHECK_DEADLOCK FALSE
