------------------------------- MODULE F1RunX -------------------------------
(* EXTENSION layer over the whole-run observer F1Run: behaviour of f1 that none of the listed      *)
(* properties states, checked on the same recorded runs.  It is not registered as a property check *)
(* (bin/extended runs it); its clauses are tagged X.. and live in their own variable so the        *)
(* property verdicts of F1Run are untouched.                                                        *)
(*                                                                                                  *)
(* X05  why the run stopped is said exactly once and truthfully (internal/run/test_runner.go run): *)
(*      "Interrupted" only after the caller cancelled, "Max Iterations Reached" only after the     *)
(*      limit refused an id and every started iteration finished, "Max Duration Elapsed" not       *)
(*      before the trigger deadline; the completion-timeout warning only after one of the first    *)
(*      two... and not before the completion timeout has passed since.                              *)
EXTENDS F1Run

VARIABLES endMsg, whyX
xvars == <<vars, endMsg, whyX>>

XInit == Init /\ endMsg = <<>> /\ whyX = {}

TrigDeadline == LET d1 == Cfg.maxdur_us
                IN IF Cfg.trigdur_us > 0 /\ Cfg.trigdur_us < d1 THEN Cfg.trigdur_us ELSE d1

XStep(e) ==
    /\ endMsg' = IF e.k = "endmsg" THEN Append(endMsg, [k |-> e.s, c |-> e.c]) ELSE endMsg
    /\ whyX' = whyX \cup
         CASE e.k = "endmsg" -> Fails(<<
                <<endMsg = <<>>, "X05", "more-than-one-ending-message">>,
                <<e.s # "interrupt" \/ cancelT >= 0, "X05", "interrupted-message-without-cancellation">>,
                <<e.s # "maxiter" \/ Cfg.maxiter > 0, "X05", "max-iterations-message-without-a-limit">>,
                <<e.s # "maxiter" \/ Cfg.light \/ liveIds = {}, "X05", "max-iterations-message-before-iterations-finished">>,
                <<e.s # "maxiter" \/ Cfg.light \/ Cardinality(ids) = Cfg.maxiter, "X05", "max-iterations-message-before-the-limit">>,
                \* the run's clock starts before Do, the deadline timer after it: never early
                <<e.s # "maxdur" \/ e.c >= TrigDeadline - 10000 - 1000, "X05", "max-duration-message-before-the-deadline">>,
                <<~retSeen, "X05", "ending-message-after-return">> >>)
           [] e.k = "timeoutmsg" -> Fails(<<
                <<Len(endMsg) = 1 /\ endMsg[1].k \in {"interrupt", "maxdur"}, "X05", "completion-timeout-warning-without-stop-message">>,
                <<Len(endMsg) # 1 \/ e.c - endMsg[1].c >= Cfg.wait_us - 1000, "X05", "completion-timeout-warning-too-early">> >>)
           [] e.k = "ret" -> Fails(<<
                <<Cfg.pool_only \/ setupSeen # 1 \/ Len(endMsg) = 1, "X05", "run-ended-without-saying-why">>,
                <<setupSeen = 1 \/ endMsg = <<>>, "X05", "ending-message-though-setup-failed">> >>)
           [] OTHER -> {}

XNext == /\ i < Len(T[tr].ev)
         /\ XStep(T[tr].ev[i + 1])
         /\ Next

OK_X05 == \A w \in whyX : w.p # "X05"
=============================================================================
