------------------------- MODULE DistributionInd -------------------------
(* Unbounded version of Distribution!ImplSpec (the regular distributor's fixed-point accumulator,   *)
(* units of 1/Q) for ONE cycle of any length 1 <= n < Q and any rate r in Nat:                       *)
(*     acc += ceil(r Q / n) ; out = acc div Q ; acc = acc mod Q                                       *)
(* IndInv is inductive (Apalache) and implies: nothing is handed out beyond r during the cycle and    *)
(* after the n-th sub-tick exactly r has been handed out.                                             *)
EXTENDS Integers

Q == 10000000

VARIABLES
    \* @type: Int;
    r,
    \* @type: Int;
    n,
    \* @type: Int;
    k,
    \* @type: Int;
    emitted,
    \* @type: Int;
    acc

CeilDiv(a, b) == (a + b - 1) \div b
C == CeilDiv(r * Q, n)

Init == r \in Nat /\ n \in 1..(Q - 1) /\ k = 0 /\ emitted = 0 /\ acc = 0
Next == /\ k < n
        /\ k' = k + 1
        /\ emitted' = emitted + (acc + C) \div Q
        /\ acc' = (acc + C) % Q
        /\ UNCHANGED <<r, n>>

IndInv == /\ r >= 0 /\ n >= 1 /\ n < Q /\ k >= 0 /\ k <= n
          /\ acc >= 0 /\ acc < Q /\ emitted >= 0
          /\ Q * emitted + acc = k * C
          /\ emitted <= r                                   \* NeverOver
          /\ (k = n) => emitted = r                         \* CycleConserved
IndInit == r \in Int /\ n \in Int /\ k \in Int /\ emitted \in Int /\ acc \in Int /\ IndInv
=============================================================================
