---------------------------- MODULE ProgressSeq ----------------------------
(* C17 (aggregation clause) — internal/progress/average.go + stats.go used sequentially.          *)
(* Per outcome o in {"success","fail"}: a period accumulator and a lifetime accumulator, each     *)
(* [n, sum, min, max] (min = max = 0 when n = 0).  Record(o, d) adds a positive duration to the    *)
(* period; Snapshot merges both periods into their lifetimes, reports the lifetime figures for     *)
(* both outcomes and the period figures of "success", and clears the periods; Total does the same  *)
(* without reporting a period.  Dropped iterations are a plain counter.                            *)
EXTENDS Integers, Sequences

CONSTANTS Durations, MaxOps

Outcomes == {"success", "fail"}
Empty == [n |-> 0, sum |-> 0, min |-> 0, max |-> 0]
AddTo(a, d) == [n |-> a.n + 1, sum |-> a.sum + d,
                min |-> IF a.n = 0 \/ d < a.min THEN d ELSE a.min,
                max |-> IF d > a.max THEN d ELSE a.max]
Merge(a, b) == IF b.n = 0 THEN a ELSE IF a.n = 0 THEN b ELSE
               [n |-> a.n + b.n, sum |-> a.sum + b.sum,
                min |-> IF b.min < a.min THEN b.min ELSE a.min,
                max |-> IF b.max > a.max THEN b.max ELSE a.max]
\* what a snapshot shows for an accumulator: count, integer mean, min, max
Figures(a) == [n |-> a.n, avg |-> IF a.n = 0 THEN 0 ELSE a.sum \div a.n, min |-> a.min, max |-> a.max]

VARIABLES period, life, dropped, ops, shown   \* shown = the last snapshot handed out
vars == <<period, life, dropped, ops, shown>>

NoShow == [kind |-> "none"]
Init == /\ period = [o \in Outcomes |-> Empty] /\ life = [o \in Outcomes |-> Empty]
        /\ dropped = 0 /\ ops = 0 /\ shown = NoShow

Record(o, d) == /\ period' = [period EXCEPT ![o] = AddTo(@, d)]
                /\ ops' = ops + 1 /\ UNCHANGED <<life, dropped, shown>>
RecordDropped == dropped' = dropped + 1 /\ ops' = ops + 1 /\ UNCHANGED <<period, life, shown>>

Collected == [o \in Outcomes |-> Merge(life[o], period[o])]
Snapshot == /\ life' = Collected
            /\ shown' = [kind |-> "snapshot", succ |-> Figures(Collected["success"]), fail |-> Figures(Collected["fail"]),
                         per |-> Figures(period["success"]), dropped |-> dropped]
            /\ period' = [o \in Outcomes |-> Empty]
            /\ ops' = ops + 1 /\ UNCHANGED dropped
Total ==    /\ life' = Collected
            /\ shown' = [kind |-> "total", succ |-> Figures(Collected["success"]), fail |-> Figures(Collected["fail"]),
                         per |-> Figures(Empty), dropped |-> dropped]
            /\ period' = [o \in Outcomes |-> Empty]
            /\ ops' = ops + 1 /\ UNCHANGED dropped

Next == /\ ops < MaxOps
        /\ \/ \E o \in Outcomes, d \in Durations : Record(o, d)
           \/ RecordDropped \/ Snapshot \/ Total
Spec == Init /\ [][Next]_vars

(* Properties *)
LifeMonotone == [][\A o \in Outcomes : life'[o].n >= life[o].n]_vars
MinMeanMax == \A o \in Outcomes : life[o].n > 0 =>
                 /\ life[o].min * life[o].n <= life[o].sum /\ life[o].sum <= life[o].max * life[o].n
                 /\ life[o].min > 0
ShownConsistent == shown.kind # "none" =>
                      /\ shown.succ.n = life["success"].n /\ shown.fail.n = life["fail"].n
                      /\ (shown.succ.n > 0 => shown.succ.min <= shown.succ.avg /\ shown.succ.avg <= shown.succ.max)
                      /\ (shown.per.n > 0 => shown.per.min >= shown.succ.min /\ shown.per.max <= shown.succ.max)
=============================================================================
