SPECIFICATION Spec
CONSTANTS MaxRuns = 2  MaxIters = 3  StaticKeys = {"a", "b"}  StaticVal <- MCVal  PushKind = "put"
INVARIANTS MirrorsRun LabelsRight OneSeriesPerResult GatewayMirrorsRun
CHECK_DEADLOCK FALSE
