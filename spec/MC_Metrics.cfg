SPECIFICATION Spec
CONSTANTS MaxRuns = 2  MaxIters = 3  StaticKeys = {"a", "b"}  StaticVal <- MCVal
INVARIANTS MirrorsRun LabelsRight OneSeriesPerResult
CHECK_DEADLOCK FALSE
