INIT Init
NEXT Next
INVARIANTS OK_C03 OK_MACHINERY
CHECK_DEADLOCK FALSE
