------------------------ MODULE Trace_ConfigJitter ------------------------
(* C15, the jitter field: a stage's jitter is ITS OWN value when it writes one (also an explicit 0),   *)
(* otherwise the default section's, otherwise none - the same Pick rule ConfigPlan uses for every field. *)
(* Observation: defj / stj = jitter percent written in the default section / the stage (-1 = omitted);  *)
(* eff = 1 when the REAL parsed stage's rate function varies between evaluations at one instant.         *)
EXTENDS ConfigPlan, Json, IOUtils, TLC
Obs == ndJsonDeserialize(IOEnv.TRACE_FILE)
VARIABLE l
Init == l \in 1..Len(Obs)
Next == UNCHANGED l
RowOK(r) ==
    /\ r.panicked = FALSE
    /\ r.accepted
    /\ r.eff = (IF PickI(r.stj, PickI(r.defj, 0)) > 0 THEN 1 ELSE 0)
Inv == RowOK(Obs[l])
=============================================================================
