SPECIFICATION Spec
CONSTANTS Workers = {w1, w2, w3}  MaxIter = 4  AllowCancel = FALSE  BodiesEnd = TRUE  PreCancelled = TRUE  SyncFlag = FALSE
INVARIANTS NothingOnADeadContext
CHECK_DEADLOCK FALSE
