SPECIFICATION Spec
CONSTANTS ParamSet <- P_pre  AllowCancel = FALSE  BodiesEnd = TRUE  SyncFlag = FALSE
INVARIANTS NothingOnADeadContext
CHECK_DEADLOCK FALSE
