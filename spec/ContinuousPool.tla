--------------------------- MODULE ContinuousPool ---------------------------
(* users mode — internal/workers/continuous_pool.go: `Workers` goroutines pass a start barrier and   *)
(* then loop: stop flag? ; NextIteration (atomic add-and-compare against the limit) ; body.          *)
(* The limit path cancels the worker context; a separate goroutine turns that into the stop flag.    *)
EXTENDS Integers, FiniteSets
CONSTANTS Workers, MaxIter, AllowCancel, BodiesEnd,
          PreCancelled,   \* the context handed to Start is already done (cancelled while setup was running)
          SyncFlag        \* Start sets the stop flag itself when it finds the context done (fix b1d37bc); FALSE = the
                          \* original code, where only the stop goroutine ever sets it
VARIABLES wpc, arrived, stopFlag, wcancel, spc, iter, ids, bodies
vars == <<wpc, arrived, stopFlag, wcancel, spc, iter, ids, bodies>>
Init == /\ wpc = [w \in Workers |-> "barrier"] /\ arrived = {} /\ spc = "wait"
        /\ wcancel = PreCancelled /\ stopFlag = (PreCancelled /\ SyncFlag)
        /\ iter = 0 /\ ids = {} /\ bodies = 0
W(w, l) == wpc' = [wpc EXCEPT ![w] = l]
Arrive(w) == /\ wpc[w] = "barrier" /\ w \notin arrived /\ arrived' = arrived \cup {w}
             /\ UNCHANGED <<wpc, stopFlag, wcancel, spc, iter, ids, bodies>>
Pass(w) == /\ wpc[w] = "barrier" /\ arrived = Workers /\ W(w, "check")
           /\ UNCHANGED <<arrived, stopFlag, wcancel, spc, iter, ids, bodies>>
Check(w) == /\ wpc[w] = "check" /\ W(w, IF stopFlag THEN "exit" ELSE "next")
            /\ UNCHANGED <<arrived, stopFlag, wcancel, spc, iter, ids, bodies>>
NextIt(w) == /\ wpc[w] = "next" /\ iter' = iter + 1
             /\ IF MaxIter > 0 /\ iter + 1 > MaxIter
                THEN W(w, "limit") /\ UNCHANGED <<ids, bodies>>
                ELSE W(w, "body") /\ ids' = ids \cup {iter + 1} /\ bodies' = bodies + 1
             /\ UNCHANGED <<arrived, stopFlag, wcancel, spc>>
Limit(w) == /\ wpc[w] = "limit" /\ wcancel' = TRUE /\ W(w, "exit")
            /\ UNCHANGED <<arrived, stopFlag, spc, iter, ids, bodies>>
Body(w) == /\ BodiesEnd /\ wpc[w] = "body" /\ W(w, "check")
           /\ UNCHANGED <<arrived, stopFlag, wcancel, spc, iter, ids, bodies>>
SWake == /\ spc = "wait" /\ wcancel /\ spc' = "flag" /\ UNCHANGED <<wpc, arrived, stopFlag, wcancel, iter, ids, bodies>>
SFlag == /\ spc = "flag" /\ stopFlag' = TRUE /\ spc' = "done" /\ UNCHANGED <<wpc, arrived, wcancel, iter, ids, bodies>>
Cancel == /\ AllowCancel /\ ~wcancel /\ wcancel' = TRUE /\ UNCHANGED <<wpc, arrived, stopFlag, spc, iter, ids, bodies>>
Worker(w) == Arrive(w) \/ Pass(w) \/ Check(w) \/ NextIt(w) \/ Limit(w) \/ Body(w)
Next == (\E w \in Workers : Worker(w)) \/ SWake \/ SFlag \/ Cancel
Spec == Init /\ [][Next]_vars /\ (\A w \in Workers : WF_vars(Worker(w))) /\ WF_vars(SWake \/ SFlag)
Ceiling == MaxIter > 0 => (Cardinality(ids) <= MaxIter /\ \A x \in ids : x <= MaxIter)
Gapless == ids = 1..Cardinality(ids)
Unique == bodies = Cardinality(ids)
NoStartBeforeAll == (\E w \in Workers : wpc[w] \notin {"barrier"}) => arrived = Workers
\* the trigger keeps requesting: with a limit exactly MaxIter bodies run and everything ends
ExactlyN == (MaxIter > 0 /\ BodiesEnd) => <>(Cardinality(ids) = MaxIter /\ \A w \in Workers : wpc[w] = "exit")
Termination == wcancel ~> (BodiesEnd => \A w \in Workers : wpc[w] = "exit")
\* C05: a pool started on a context that is already done starts nothing
NothingOnADeadContext == PreCancelled => ids = {}
AllBusy == (~BodiesEnd /\ MaxIter = 0 /\ ~AllowCancel) => <>(\A w \in Workers : wpc[w] = "body")
=============================================================================
