--------------------------- MODULE ContinuousPool ---------------------------
(* users mode — internal/workers/continuous_pool.go: `par.n` goroutines pass a start barrier and     *)
(* then loop: stop flag? ; NextIteration (atomic add-and-compare against the limit) ; body.          *)
(* The limit path cancels the worker context; a separate goroutine turns that into the stop flag.    *)
(* The run's parameters (number of workers, max-iterations, whether the context handed to Start is   *)
(* already done) are the never-changing variable `par`, so that one trace specification can validate *)
(* schedules recorded with different parameters.                                                      *)
EXTENDS Integers, FiniteSets
CONSTANTS ParamSet,       \* set of [n : workers, m : max-iterations (0 = none), pre : context already done at Start]
          AllowCancel, BodiesEnd,
          SyncFlag        \* Start sets the stop flag itself when it finds the context done (fix b1d37bc); FALSE = the
                          \* original code, where only the stop goroutine ever sets it
VARIABLES par, wpc, arrived, stopFlag, wcancel, spc, iter, ids, bodies
vars == <<par, wpc, arrived, stopFlag, wcancel, spc, iter, ids, bodies>>
Workers == 1..par.n
MaxIter == par.m
PreCancelled == par.pre

InitWith(p) == /\ par = p
               /\ wpc = [w \in 1..p.n |-> "barrier"] /\ arrived = {} /\ spc = "wait"
               /\ wcancel = p.pre /\ stopFlag = (p.pre /\ SyncFlag)
               /\ iter = 0 /\ ids = {} /\ bodies = 0
Init == \E p \in ParamSet : InitWith(p)
W(w, l) == wpc' = [wpc EXCEPT ![w] = l]
Arrive(w) == /\ wpc[w] = "barrier" /\ w \notin arrived /\ arrived' = arrived \cup {w}
             /\ UNCHANGED <<par, wpc, stopFlag, wcancel, spc, iter, ids, bodies>>
Pass(w) == /\ wpc[w] = "barrier" /\ arrived = Workers /\ W(w, "check")
           /\ UNCHANGED <<par, arrived, stopFlag, wcancel, spc, iter, ids, bodies>>
Check(w) == /\ wpc[w] = "check" /\ W(w, IF stopFlag THEN "exit" ELSE "next")
            /\ UNCHANGED <<par, arrived, stopFlag, wcancel, spc, iter, ids, bodies>>
NextIt(w) == /\ wpc[w] = "next" /\ iter' = iter + 1
             /\ IF MaxIter > 0 /\ iter + 1 > MaxIter
                THEN W(w, "limit") /\ UNCHANGED <<ids, bodies>>
                ELSE W(w, "body") /\ ids' = ids \cup {iter + 1} /\ bodies' = bodies + 1
             /\ UNCHANGED <<par, arrived, stopFlag, wcancel, spc>>
Limit(w) == /\ wpc[w] = "limit" /\ wcancel' = TRUE /\ W(w, "exit")
            /\ UNCHANGED <<par, arrived, stopFlag, spc, iter, ids, bodies>>
Body(w) == /\ BodiesEnd /\ wpc[w] = "body" /\ W(w, "check")
           /\ UNCHANGED <<par, arrived, stopFlag, wcancel, spc, iter, ids, bodies>>
SWake == /\ spc = "wait" /\ wcancel /\ spc' = "flag" /\ UNCHANGED <<par, wpc, arrived, stopFlag, wcancel, iter, ids, bodies>>
SFlag == /\ spc = "flag" /\ stopFlag' = TRUE /\ spc' = "done" /\ UNCHANGED <<par, wpc, arrived, wcancel, iter, ids, bodies>>
Cancel == /\ AllowCancel /\ ~wcancel /\ wcancel' = TRUE /\ UNCHANGED <<par, wpc, arrived, stopFlag, spc, iter, ids, bodies>>
Worker(w) == Arrive(w) \/ Pass(w) \/ Check(w) \/ NextIt(w) \/ Limit(w) \/ Body(w)
Next == (\E w \in Workers : Worker(w)) \/ SWake \/ SFlag \/ Cancel
Spec == Init /\ [][Next]_vars /\ (\A w \in 1..4 : WF_vars(w \in Workers /\ Worker(w))) /\ WF_vars(SWake \/ SFlag)
Ceiling == MaxIter > 0 => (Cardinality(ids) <= MaxIter /\ \A x \in ids : x <= MaxIter)
Gapless == ids = 1..Cardinality(ids)
Unique == bodies = Cardinality(ids)
NoStartBeforeAll == (\E w \in Workers : wpc[w] \notin {"barrier"}) => arrived = Workers
\* the trigger keeps requesting: with a limit exactly MaxIter bodies run and everything ends
ExactlyN == (MaxIter > 0 /\ BodiesEnd /\ ~PreCancelled) => <>(Cardinality(ids) = MaxIter /\ \A w \in Workers : wpc[w] = "exit")
Termination == wcancel ~> (BodiesEnd => \A w \in Workers : wpc[w] = "exit")
\* C05: a pool started on a context that is already done starts nothing
NothingOnADeadContext == PreCancelled => ids = {}
AllBusy == (~BodiesEnd /\ MaxIter = 0 /\ ~AllowCancel) => <>(\A w \in Workers : wpc[w] = "body")
=============================================================================
