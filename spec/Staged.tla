------------------------------ MODULE Staged ------------------------------
(* C10 — staged and ramp rate profiles (internal/trigger/staged/calculator.go RateCalculator,     *)
(* internal/trigger/ramp/ramp_rate.go).  Time is in integer units chosen by the observer; stage   *)
(* k is (d_k, e_k): duration and end target; its start target is the previous stage's end target  *)
(* (0 for the first).  Queries come at non-decreasing offsets t from the first query.             *)
(* The calculator is a cursor state machine: the cursor moves over elapsed (and zero-length)      *)
(* stages and never goes back; inside a stage the result interpolates linearly.                    *)
EXTENDS Integers, Sequences

CONSTANTS DurSet, TargetSet, MaxStages, MaxT

VARIABLES stages,     \* sequence of [d |-> duration, e |-> end target]
          cur,        \* index of the current stage (Len(stages)+1 once all have elapsed)
          t,          \* offset of the last query
          last,       \* result of the last query (NONE before the first; targets, and so results, may be negative)
          lastStage   \* stage the last query fell in (0 before the first)
vars == <<stages, cur, t, last, lastStage>>

Min(a, b) == IF a < b THEN a ELSE b
Max(a, b) == IF a > b THEN a ELSE b

RECURSIVE Cum(_, _)
Cum(st, k) == IF k = 0 THEN 0 ELSE Cum(st, k - 1) + st[k].d      \* end offset of stage k
Total(st) == Cum(st, Len(st))
StartTarget(st, k) == IF k = 1 THEN 0 ELSE st[k - 1].e

\* the stage a query at offset off falls in, searching forward from stage c
RECURSIVE StageAt(_, _, _)
StageAt(st, c, off) == IF c > Len(st) THEN c
                       ELSE IF off < Cum(st, c) THEN c ELSE StageAt(st, c + 1, off)

\* r is an acceptable answer inside stage k at offset off (o = offset into the stage)
InStageOK(st, k, off, r) ==
    LET S == StartTarget(st, k)  E == st[k].e  D == st[k].d  o == off - Cum(st, k - 1)
    IN /\ Min(S, E) <= r /\ r <= Max(S, E)                        \* never outside the two targets
       /\ r * D - (S * D + (E - S) * o) <= D                      \* within 1 of the exact value
       /\ (S * D + (E - S) * o) - r * D <= D

\* monotone within a stage, in the direction of the stage
NONE == -2000000000        \* "no previous answer"
MonotoneOK(st, k, prevStage, prev, r) ==
    (prevStage = k /\ prev # NONE) =>
        LET S == StartTarget(st, k)  E == st[k].e
        IN /\ (E >= S) => r >= prev
           /\ (E <= S) => r <= prev

QueryOK(st, c, prevStage, prev, off, r) ==
    LET k == StageAt(st, c, off)
    IN IF k > Len(st) THEN r = 0                                  \* 0 once all stages have elapsed
       ELSE InStageOK(st, k, off, r) /\ MonotoneOK(st, k, prevStage, prev, r)

Query(off, r) ==
    /\ off >= t
    /\ QueryOK(stages, cur, lastStage, last, off, r)
    /\ cur' = StageAt(stages, cur, off)
    /\ t' = off /\ last' = r /\ lastStage' = cur'
    /\ UNCHANGED stages

StageSet == [d : DurSet, e : TargetSet]
Init == /\ stages \in UNION {[1..n -> StageSet] : n \in 1..MaxStages}
        /\ cur = 1 /\ t = 0 /\ last = NONE /\ lastStage = 0
Next == \E off \in t..MaxT, r \in (CHOOSE m \in TargetSet \cup {0} : \A x \in TargetSet \cup {0} : m <= x)..(CHOOSE m \in TargetSet \cup {0} : \A x \in TargetSet \cup {0} : m >= x) : Query(off, r)
Spec == Init /\ [][Next]_vars

(* the calculator's own arithmetic: truncation toward the start target *)
Trunc(a, b) == IF a >= 0 THEN a \div b ELSE -((-a) \div b)
ImplRate(st, k, off) == LET S == StartTarget(st, k)  E == st[k].e  D == st[k].d  o == off - Cum(st, k - 1)
                        IN S + Trunc((E - S) * o, D)
ImplNext == \E off \in t..MaxT :
              LET k == StageAt(stages, cur, off)
              IN Query(off, IF k > Len(stages) THEN 0 ELSE ImplRate(stages, k, off))
Done == t = MaxT /\ UNCHANGED vars
\* with deadlock checking on this shows that truncating interpolation always satisfies QueryOK
ImplSpec == Init /\ [][ImplNext \/ Done]_vars

\* in every reachable state, for EVERY later offset, the truncating value is an allowed answer
ImplAlwaysAllowed == \A off \in t..MaxT :
                        LET k == StageAt(stages, cur, off)
                        IN QueryOK(stages, cur, lastStage, last, off,
                                   IF k > Len(stages) THEN 0 ELSE ImplRate(stages, k, off))

\* target sets of the model-checking configurations (a .cfg file cannot write a negative number)
MC_Targets_A == {-2, 0, 1, 3}
MC_Targets_B == {-3, 0, 1, 4, 7}

(* Properties *)
CursorMonotone == [][cur' >= cur]_vars
ZeroAfterEnd == (t >= Total(stages) /\ last # NONE) => last = 0
WithinTargets == (last # NONE /\ lastStage <= Len(stages) /\ lastStage > 0) =>
                    /\ last >= Min(StartTarget(stages, lastStage), stages[lastStage].e)
                    /\ last <= Max(StartTarget(stages, lastStage), stages[lastStage].e)
(* ramp = one stage from s to e over d, but 0 only STRICTLY after d (the ramp reaches e at d) *)
RampOK(S, E, D, off, prev, r) ==
    IF off > D THEN r = 0
    ELSE /\ Min(S, E) <= r /\ r <= Max(S, E)
         /\ r * D - (S * D + (E - S) * off) <= D
         /\ (S * D + (E - S) * off) - r * D <= D
         /\ (prev # NONE) => ((E >= S) => r >= prev) /\ ((E <= S) => r <= prev)
=============================================================================
