----------------------- MODULE Trace_ContinuousPool -----------------------
(* Spec-grain trace validation of the users pool: every cooperative schedule of the REAL                *)
(* workers.ContinuousPool (harness sub-command cpool) must be a behaviour of ContinuousPool.             *)
(* The harness turns what it observes at the cp.* yield points into specification actions by a FIXED      *)
(* table (it never looks at the pool's state):                                                            *)
(*   arrival at cp.w.started  -> Pass(w)   (and, the first time, Arrive(k) for every worker: the barrier)  *)
(*   arrival at cp.w.loop     -> Check(w) that found the stop flag clear                                   *)
(*   arrival at cp.w.exit     -> Check(w) that found it set   (nothing when coming from cp.limit)          *)
(*   arrival at a body        -> NextIt(w) that was handed id n                                            *)
(*   arrival at cp.limit      -> NextIt(w) that was refused (the limit)                                    *)
(*   release from cp.limit    -> Limit(w)  (cancels the worker context)                                    *)
(*   arrival at cp.stopper.woken -> SWake ; release from it -> SFlag                                       *)
(*   release from a body      -> Body(w) ; release of the canceller -> Cancel                              *)
(* Each logged action must be ENABLED in the specification's current state and its logged outcome must be  *)
(* the specification's outcome (which branch Check took, which id NextIt handed out).                      *)
EXTENDS ContinuousPool, Sequences, Json, IOUtils, TLC

T == ndJsonDeserialize(IOEnv.TRACE_FILE)
VARIABLES tr, i, bad
tvars == <<vars, tr, i, bad>>

TInit == /\ tr \in 1..Len(T) /\ i = 0 /\ bad = ""
         /\ InitWith([n |-> T[tr].par.n, m |-> T[tr].par.m, pre |-> T[tr].par.pre])

Refuse(a) == bad' = a[1] /\ UNCHANGED vars
\* the logged outcome agrees with what the specification's action does from this state
CheckOutcome(w, o) == wpc[w] = "check" /\ (o = 1) = stopFlag
NextOutcome(w, n) == /\ wpc[w] = "next"
                     /\ IF MaxIter > 0 /\ iter + 1 > MaxIter THEN n = 0 ELSE n = iter + 1

Step(a) ==
    LET w == a[2] IN
    CASE a[1] = "arrive" -> IF w \in Workers /\ wpc[w] = "barrier" /\ w \notin arrived THEN Arrive(w) /\ bad' = bad ELSE Refuse(a)
      [] a[1] = "pass"   -> IF w \in Workers /\ wpc[w] = "barrier" /\ arrived = Workers THEN Pass(w) /\ bad' = bad ELSE Refuse(a)
      [] a[1] = "check"  -> IF w \in Workers /\ CheckOutcome(w, a[3]) THEN Check(w) /\ bad' = bad ELSE Refuse(a)
      [] a[1] = "nextit" -> IF w \in Workers /\ NextOutcome(w, a[3]) THEN NextIt(w) /\ bad' = bad ELSE Refuse(a)
      [] a[1] = "limit"  -> IF w \in Workers /\ wpc[w] = "limit" THEN Limit(w) /\ bad' = bad ELSE Refuse(a)
      [] a[1] = "body"   -> IF w \in Workers /\ wpc[w] = "body" THEN Body(w) /\ bad' = bad ELSE Refuse(a)
      [] a[1] = "swake"  -> IF spc = "wait" /\ wcancel THEN SWake /\ bad' = bad ELSE Refuse(a)
      [] a[1] = "sflag"  -> IF spc = "flag" THEN SFlag /\ bad' = bad ELSE Refuse(a)
      \* cancelling a context that the limit path has already cancelled changes nothing: a stuttering step
      [] a[1] = "cancel" -> IF ~wcancel THEN Cancel /\ bad' = bad ELSE UNCHANGED vars /\ bad' = bad
      [] OTHER -> Refuse(a)

TNext == /\ i < Len(T[tr].arr) /\ bad = ""
         /\ i' = i + 1 /\ UNCHANGED tr
         /\ Step(T[tr].arr[i + 1])

Accepted == bad = ""
Finished == i = Len(T[tr].arr) /\ bad = ""
\* the specification's safety properties, evaluated on the real schedule, grouped by the property they state
InvC03 == /\ Ceiling /\ Gapless /\ Unique
          /\ Finished => T[tr].started = Cardinality(ids)     \* the totals the harness read agree with the model
InvC04 == NoStartBeforeAll
InvC05 == /\ NothingOnADeadContext
          /\ Finished => \A w \in Workers : wpc[w] = "exit"   \* a finished schedule has ended the pool
=============================================================================
