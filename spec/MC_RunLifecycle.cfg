SPECIFICATION Spec
CONSTANTS MaxTicks = 2  StopWaits = TRUE
INVARIANTS TypeOK QuietAfterReturn NeverWedged
PROPERTIES Returns
CHECK_DEADLOCK FALSE
