INIT TInit
NEXT TNext
CONSTANT MaxLive = 3
INVARIANTS Accepted InvOnTrace Complete
CHECK_DEADLOCK FALSE
