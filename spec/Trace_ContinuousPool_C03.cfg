INIT TInit
NEXT TNext
CONSTANTS ParamSet = {}  AllowCancel = TRUE  BodiesEnd = TRUE  SyncFlag = TRUE
INVARIANTS InvC03
CHECK_DEADLOCK FALSE
