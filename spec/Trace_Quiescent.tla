-------------------------- MODULE Trace_Quiescent --------------------------
(* C17 at quiescence under real parallelism: a recorder and a snapshotting goroutine ran freely on the real    *)
(* progress.Stats; after both returned, the lifetime figures of Total() cover ALL iterations recorded so far:   *)
(* count, minimum, maximum exactly, and the integer mean between them (the row is the first round at which this *)
(* failed, or the last round of the budget).                                                                     *)
EXTENDS Integers, Sequences, Json, IOUtils, TLC
Obs == ndJsonDeserialize(IOEnv.TRACE_FILE)
VARIABLE l
Init == l \in 1..Len(Obs)
Next == UNCHANGED l
RowOK(r) ==
    /\ r.err = "" /\ r.rounds > 0
    /\ r.count = r.n
    /\ r.min_us = r.min_true_us /\ r.max_us = r.max_true_us
    /\ r.min_us <= r.avg_us /\ r.avg_us <= r.max_us
Inv == RowOK(Obs[l])
=============================================================================
