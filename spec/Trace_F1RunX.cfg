INIT XInit
NEXT XNext
INVARIANTS OK_X05 OK_MACHINERY
CHECK_DEADLOCK FALSE
