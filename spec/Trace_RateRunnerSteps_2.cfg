INIT Init
NEXT Next
CONSTANT NS = 2
INVARIANTS Mark StuckMark QuiescentAfterStop OnlyAfterStart
CHECK_DEADLOCK FALSE
