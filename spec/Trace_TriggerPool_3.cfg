INIT Init
NEXT Next
CONSTANTS MaxWorkers = 3  MaxIterC = 3
INVARIANTS Mark StuckMark NoOverCount MutexOK
CHECK_DEADLOCK FALSE
