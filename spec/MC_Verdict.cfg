INIT Init
NEXT Next
CONSTANTS
  MaxCount = 6
  MaxFSet = {0, 1, 2, 3}
  MaxFRSet = {0, 1, 5, 50, 100}
INVARIANTS
  MonotoneInFailures MonotoneInSuccess ZeroIterationsPass ErrorsFail DroppedFail
  IgnoreOnlyDropped NoToleranceStrict NoFailuresNeverExceed ExactShareWithinTolerance
CHECK_DEADLOCK FALSE
