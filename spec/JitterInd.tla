---------------------------- MODULE JitterInd ----------------------------
EXTENDS Integers

S == 10000

VARIABLES
    \* @type: Int;
    J,
    \* @type: Int;
    b,
    \* @type: Int;
    sumIn,
    \* @type: Int;
    sumOut,
    \* @type: Int;
    rmax

Abs(x) == IF x < 0 THEN -x ELSE x
Min(a, c) == IF a < c THEN a ELSE c
Max(a, c) == IF a > c THEN a ELSE c

OutAllowed(jj, req, out) ==
    LET A  == req * (S - jj)
        B  == req * (S + jj)
        lo == Min(A, B)
        hi == Max(A, B)
    IN /\ out >= 0
       /\ 2 * S * out >= 2 * lo - S - 2
       /\ 2 * S * out <= Max(0, 2 * hi + S + 2)
       /\ (jj = 0) => (out = Max(0, req))

Step(r, out) ==
    /\ OutAllowed(J, r + b, out)
    /\ b' = r + b - out
    /\ sumIn' = sumIn + r
    /\ sumOut' = sumOut + out
    /\ rmax' = Max(rmax, r)
    /\ UNCHANGED J

JS == 0..9999
Init == J \in JS /\ b = 0 /\ sumIn = 0 /\ sumOut = 0 /\ rmax = 0
Next == \E r \in Nat, out \in Nat : Step(r, out)

CarryExact    == sumIn - sumOut = b
BalanceBounded == 2 * Abs(b) * (S - Abs(J)) <= 2 * Abs(J) * rmax + S + 4
ZeroIsIdentity == (J = 0) => (b = 0 /\ sumIn = sumOut)

IndInv == /\ J \in JS /\ rmax >= 0
          /\ CarryExact /\ BalanceBounded /\ ZeroIsIdentity
IndInit == J \in JS /\ b \in Int /\ sumIn \in Int /\ sumOut \in Int /\ rmax \in Nat /\ IndInv
=============================================================================
