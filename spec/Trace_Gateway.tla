--------------------------- MODULE Trace_Gateway ---------------------------
(* C16 as the push gateway sees it (harness `c16push`): consecutive runs of one scenario on one metrics instance     *)
(* push to a gateway with the real one's PUT / POST semantics; one observation per run = what the gateway holds for   *)
(* the run's group once the run is over, next to what the run's result reports. This is Metrics!GatewayMirrorsRun     *)
(* on observations: this run's samples - per result label exactly the result's counts, exactly one setup sample       *)
(* labelled with the setup outcome - and nothing of earlier runs; one group, and at least one push per run.           *)
EXTENDS Integers, Sequences, Json, IOUtils, TLC
Obs == ndJsonDeserialize(IOEnv.TRACE_FILE)
VARIABLE l
Init == l \in 1..Len(Obs)
Next == UNCHANGED l
RowOK(r) == /\ r.err = ""
            /\ r.g_success = r.s /\ r.g_fail = r.f /\ r.g_dropped = r.d /\ r.g_other = 0
            /\ r.g_setup_success = (IF r.setup_ok THEN 1 ELSE 0)
            /\ r.g_setup_fail = (IF r.setup_ok THEN 0 ELSE 1)
            /\ r.groups = 1 /\ r.pushes >= r.run
Inv == RowOK(Obs[l])
=============================================================================
