------------------------- MODULE Trace_ProgressSeq -------------------------
(* Validates sequential op logs of the REAL progress.Stats against ProgressSeq.                   *)
(* {"ev":[ ["r","success",d] | ["r","fail",d] | ["d"] | ["s", obs] | ["t", obs] ]}                 *)
(* obs = [succN,succAvg,succMin,succMax, failN,failAvg,failMin,failMax, perN,perAvg,perMin,perMax, *)
(*        dropped]  as returned by the real Snapshot()/Total().                                    *)
EXTENDS Integers, Sequences, Json, IOUtils, TLC
T == ndJsonDeserialize(IOEnv.TRACE_FILE)
VARIABLES period, life, dropped, ops, shown, tr, i, ok
PS == INSTANCE ProgressSeq WITH Durations <- {1}, MaxOps <- 0

Fig(o, k) == [n |-> o[k], avg |-> o[k + 1], min |-> o[k + 2], max |-> o[k + 3]]
Init == /\ tr \in 1..Len(T) /\ i = 0 /\ ok = TRUE /\ PS!Init
Next == /\ i < Len(T[tr].ev)
        /\ LET e == T[tr].ev[i + 1] IN
             /\ i' = i + 1 /\ UNCHANGED tr
             /\ CASE e[1] = "r" -> PS!Record(e[2], e[3]) /\ ok' = (e[3] > 0)
                  [] e[1] = "d" -> PS!RecordDropped /\ ok' = TRUE
                  [] e[1] = "s" -> /\ PS!Snapshot
                                   /\ ok' = (/\ shown'.succ = Fig(e[2], 1) /\ shown'.fail = Fig(e[2], 5)
                                             /\ shown'.per = Fig(e[2], 9) /\ shown'.dropped = e[2][13])
                  [] e[1] = "t" -> /\ PS!Total
                                   /\ ok' = (/\ shown'.succ = Fig(e[2], 1) /\ shown'.fail = Fig(e[2], 5)
                                             /\ shown'.dropped = e[2][13])
Accepted == ok
MinMeanMax == PS!MinMeanMax
=============================================================================
