SPECIFICATION Spec
CONSTANTS MaxTicks = 2  StopWaits = FALSE
INVARIANTS NeverWedged
CHECK_DEADLOCK FALSE
