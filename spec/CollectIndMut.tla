---------------------------- MODULE CollectIndMut ----------------------------
(* Mutant of CollectInd: the ORIGINAL collect-on-snapshot - read the period counter, merge, then reset it *)
(* in a separate step (the defect repaired by bd554c8). A Record between read and reset is erased.         *)
EXTENDS Integers
VARIABLES
    \* @type: Int;
    running,
    \* @type: Int;
    lifetime,
    \* @type: Int;
    recorded,
    \* @type: Int;
    tmp,
    \* @type: Bool;
    collecting
Init == running = 0 /\ lifetime = 0 /\ recorded = 0 /\ tmp = 0 /\ collecting = FALSE
Record == running' = running + 1 /\ recorded' = recorded + 1 /\ UNCHANGED <<lifetime, tmp, collecting>>
Read == ~collecting /\ tmp' = running /\ collecting' = TRUE /\ UNCHANGED <<running, lifetime, recorded>>
Reset == collecting /\ lifetime' = lifetime + tmp /\ running' = 0 /\ collecting' = FALSE /\ tmp' = 0 /\ UNCHANGED recorded
Next == Record \/ Read \/ Reset
IndInv == (~collecting => recorded = lifetime + running) /\ running >= 0 /\ lifetime >= 0
IndInit == running \in Int /\ lifetime \in Int /\ recorded \in Int /\ tmp \in Int /\ collecting \in BOOLEAN /\ IndInv
=============================================================================
