SPECIFICATION Spec
CONSTANTS NSched = 2  MaxTicks = 2  StopWaits = FALSE
INVARIANTS QuiescentAfterStop
CHECK_DEADLOCK FALSE
