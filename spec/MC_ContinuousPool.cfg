SPECIFICATION Spec
CONSTANTS ParamSet <- P_3x4  AllowCancel = TRUE  BodiesEnd = TRUE  SyncFlag = TRUE
INVARIANTS Ceiling Gapless Unique NoStartBeforeAll
PROPERTIES Termination
CHECK_DEADLOCK FALSE
