SPECIFICATION Spec
CONSTANTS Workers = {w1, w2, w3}  MaxIter = 4  AllowCancel = TRUE  BodiesEnd = TRUE  PreCancelled = FALSE  SyncFlag = TRUE
INVARIANTS Ceiling Gapless Unique NoStartBeforeAll
PROPERTIES Termination
CHECK_DEADLOCK FALSE
