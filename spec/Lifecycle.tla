----------------------------- MODULE Lifecycle -----------------------------
(* C06 / C07 / C20 — the scenario lifecycle as an executable oracle.                               *)
(* Models pkg/f1/testing/t.go (T: failed, teardownFailed, tearingDown, cleanup stack, Reset,       *)
(* teardown with one recover per cleanup, FailNow sentinel), internal/workers/active_scenario.go   *)
(* (Setup, Run: outcome read after the recovered body and BEFORE the iteration's cleanups),        *)
(* pkg/f1/f1_scenarios.go (CombineScenarios) and the ordering imposed by internal/run/             *)
(* test_runner.go Do (setup, iterations, setup cleanups last, errors).                             *)
(* One worker, NIter iterations (users mode, --max-iterations NIter, concurrency 1), NComp         *)
(* combined components.  The PROGRAM - what every user function does - is chosen by the            *)
(* environment as the run executes; the specification appends to `log` both the choice (t = "P")   *)
(* and the observable event the real code must produce (t = "E"), and finally the result ("R").    *)
(* A user function is a sequence of steps from {"reg", "fail"} followed by an ending:              *)
(*   "ret" (returns), "failnow" (FailNow/Fatal/failed require), "panic" (any panic value).         *)
(* Cleanup functions contain no "reg"; they may contain "regn": registering a further cleanup from  *)
(* INSIDE a cleanup. Whether such a nested cleanup runs is not part of the statement (its event is   *)
(* not in the log), but it must not disturb the cleanups that were registered by setup or a body.    *)
EXTENDS Integers, Sequences, FiniteSets, TLC, Json

CONSTANTS NComp, NIter, BodyProgs, SetupProgs, CleanupProgs

VARIABLES phase, c, it, k, sFailed, sTdFailed, sStack, iFailed, iTdFailed, iStack,
          succ, fail, errs, log
vars == <<phase, c, it, k, sFailed, sTdFailed, sStack, iFailed, iTdFailed, iStack, succ, fail, errs, log>>

Ending(p) == p[Len(p)]
Stops(p) == Ending(p) # "ret"
NumRegs(p) == Cardinality({j \in 1..(Len(p) - 1) : p[j] = "reg"})
HasFail(p) == \E j \in 1..(Len(p) - 1) : p[j] = "fail"
MarksFailed(p) == HasFail(p) \/ Stops(p)

P(f, i, cc, p) == [t |-> "P", f |-> f, i |-> i, c |-> cc, p |-> p]
E(f, i, cc)    == [t |-> "E", f |-> f, i |-> i, c |-> cc, p |-> <<>>]

Init == /\ phase = "setup" /\ c = 1 /\ it = 0 /\ k = 0
        /\ sFailed = FALSE /\ sTdFailed = FALSE /\ sStack = 0
        /\ iFailed = FALSE /\ iTdFailed = FALSE /\ iStack = 0
        /\ succ = 0 /\ fail = 0 /\ errs = <<>> /\ log = <<>>

\* component c's setup function runs against the setup handle
SetupComp(p) ==
    /\ phase = "setup" /\ c <= NComp
    /\ log' = log \o <<P("s", 0, c, p), E("s", 0, c)>>
    /\ sFailed' = (sFailed \/ MarksFailed(p))
    /\ sStack' = sStack + NumRegs(p)
    /\ c' = IF Stops(p) THEN NComp + 1 ELSE c + 1      \* a stop ends the whole (combined) setup
    /\ UNCHANGED <<phase, it, k, sTdFailed, iFailed, iTdFailed, iStack, succ, fail, errs>>

\* setup finished: a failed setup means no iteration ever runs
SetupEnd ==
    /\ phase = "setup" /\ c > NComp
    /\ IF sFailed
       THEN /\ errs' = errs \o <<"setup failed">> /\ phase' = "teardown" /\ k' = sStack
            /\ UNCHANGED <<it, c, iFailed, iTdFailed, iStack>>
       ELSE /\ phase' = "iter" /\ it' = 1 /\ c' = 1
            /\ iFailed' = FALSE /\ iTdFailed' = FALSE /\ iStack' = 0      \* T.Reset
            /\ UNCHANGED <<errs, k>>
    /\ UNCHANGED <<sFailed, sTdFailed, sStack, succ, fail, log>>

\* component c's iteration function runs with this iteration's handle
BodyComp(p) ==
    /\ phase = "iter" /\ c <= NComp
    /\ log' = log \o <<P("b", it, c, p), E("b", it, c)>>
    /\ iFailed' = (iFailed \/ MarksFailed(p))
    /\ iStack' = iStack + NumRegs(p)
    /\ c' = IF Stops(p) THEN NComp + 1 ELSE c + 1      \* a stop skips the later components, this iteration only
    /\ UNCHANGED <<phase, it, k, sFailed, sTdFailed, sStack, iTdFailed, succ, fail, errs>>

\* the outcome is read after the (recovered) body and before the iteration's cleanups
BodyEnd ==
    /\ phase = "iter" /\ c > NComp
    /\ IF iFailed THEN fail' = fail + 1 /\ succ' = succ ELSE succ' = succ + 1 /\ fail' = fail
    /\ phase' = "iterCleanup" /\ k' = iStack
    /\ UNCHANGED <<c, it, sFailed, sTdFailed, sStack, iFailed, iTdFailed, iStack, errs, log>>

\* cleanups of the iteration, last registered first, each individually recovered
IterCleanup(p) ==
    /\ phase = "iterCleanup" /\ k > 0
    /\ log' = log \o <<P("ic", it, k, p), E("ic", it, k)>>
    /\ iTdFailed' = (iTdFailed \/ MarksFailed(p))      \* routed to teardownFailed, never to the iteration outcome
    /\ k' = k - 1
    /\ UNCHANGED <<phase, c, it, sFailed, sTdFailed, sStack, iFailed, iStack, succ, fail, errs>>

IterDone ==
    /\ phase = "iterCleanup" /\ k = 0
    /\ IF it < NIter
       THEN /\ it' = it + 1 /\ phase' = "iter" /\ c' = 1
            /\ iFailed' = FALSE /\ iTdFailed' = FALSE /\ iStack' = 0      \* T.Reset: clean start
            /\ k' = k
       ELSE /\ phase' = "teardown" /\ k' = sStack
            /\ UNCHANGED <<it, c, iFailed, iTdFailed, iStack>>
    /\ UNCHANGED <<sFailed, sTdFailed, sStack, succ, fail, errs, log>>

\* cleanups registered during setup: after every iteration, last registered first, each recovered
SetupCleanup(p) ==
    /\ phase = "teardown" /\ k > 0
    /\ log' = log \o <<P("sc", 0, k, p), E("sc", 0, k)>>
    /\ sTdFailed' = (sTdFailed \/ MarksFailed(p))
    /\ k' = k - 1
    /\ UNCHANGED <<phase, c, it, sFailed, sStack, iFailed, iTdFailed, iStack, succ, fail, errs>>

Return ==
    /\ phase = "teardown" /\ k = 0
    /\ LET e2 == IF sTdFailed THEN errs \o <<"teardown failed">> ELSE errs
       IN /\ errs' = e2
          /\ log' = Append(log, [t |-> "R", f |-> "", i |-> succ, c |-> fail, p |-> e2])
    /\ phase' = "returned"
    /\ UNCHANGED <<c, it, k, sFailed, sTdFailed, sStack, iFailed, iTdFailed, iStack, succ, fail>>

Next == \/ \E p \in SetupProgs : SetupComp(p)
        \/ SetupEnd
        \/ \E p \in BodyProgs : BodyComp(p)
        \/ BodyEnd
        \/ \E p \in CleanupProgs : IterCleanup(p) \/ SetupCleanup(p)
        \/ IterDone
        \/ Return
Spec == Init /\ [][Next]_vars

-----------------------------------------------------------------------------
(* The statements of C06 / C07 / C20 as predicates over the finished log. *)
Ev == SelectSeq(log, LAMBDA x : x.t = "E")
Pr == SelectSeq(log, LAMBDA x : x.t = "P")
Pos(f, i, cc) == {j \in 1..Len(Ev) : Ev[j].f = f /\ Ev[j].i = i /\ Ev[j].c = cc}
Count(f, i, cc) == Cardinality(Pos(f, i, cc))
ProgOf(f, i, cc) == LET S == {j \in 1..Len(Pr) : Pr[j].f = f /\ Pr[j].i = i /\ Pr[j].c = cc}
                    IN Pr[CHOOSE j \in S : TRUE].p
Ran(f, i, cc) == Count(f, i, cc) > 0
Finished == phase = "returned"
Iters == 1..NIter
Comps == 1..NComp

\* registered cleanups of an owner ("s" setup / "b" iteration i), from the executed programs
RegsOf(f, i) == LET S == {j \in 1..Len(Pr) : Pr[j].f = f /\ Pr[j].i = i} IN
                 IF S = {} THEN 0 ELSE
                 LET RECURSIVE Sum(_)
                     Sum(T) == IF T = {} THEN 0 ELSE LET j == CHOOSE x \in T : TRUE IN NumRegs(Pr[j].p) + Sum(T \ {j})
                 IN Sum(S)
FirstPos(f, i, cc) == CHOOSE j \in Pos(f, i, cc) : \A j2 \in Pos(f, i, cc) : j <= j2

\* C06: setup exactly once per component, in order, before any iteration
SetupOnceFirst == Finished =>
    /\ \A cc \in Comps : Count("s", 0, cc) <= 1
    /\ Count("s", 0, 1) = 1
    /\ \A j \in 1..Len(Ev) : Ev[j].f = "b" => \A cc \in Comps : Ran("s", 0, cc) /\ FirstPos("s", 0, cc) < j
\* C06: a failed/panicked setup means no iteration and a failed run
NoIterationAfterFailedSetup == Finished =>
    ((\E cc \in Comps : Ran("s", 0, cc) /\ MarksFailed(ProgOf("s", 0, cc))) =>
        (\A j \in 1..Len(Ev) : Ev[j].f # "b") /\ Len(errs) > 0)
\* C06: iteration cleanups exactly once, LIFO, after the body and before the next iteration's body
IterCleanupsLIFOOnce == Finished => \A i \in Iters :
    /\ \A kk \in 1..RegsOf("b", i) : Count("ic", i, kk) = 1
    /\ \A j \in 1..Len(Ev) : Ev[j].f = "ic" /\ Ev[j].i = i => Ev[j].c \in 1..RegsOf("b", i)
    /\ \A k1, k2 \in 1..RegsOf("b", i) : k1 < k2 => FirstPos("ic", i, k2) < FirstPos("ic", i, k1)
    /\ \A j \in 1..Len(Ev) : (Ev[j].f = "b" /\ Ev[j].i = i) =>
          \A kk \in 1..RegsOf("b", i) : j < FirstPos("ic", i, kk)
    /\ \A j \in 1..Len(Ev) : (Ev[j].f = "b" /\ Ev[j].i > i) =>
          \A kk \in 1..RegsOf("b", i) : FirstPos("ic", i, kk) < j
\* C06: setup cleanups exactly once, LIFO, after everything else
SetupCleanupsLast == Finished =>
    /\ \A kk \in 1..RegsOf("s", 0) : Count("sc", 0, kk) = 1
    /\ \A k1, k2 \in 1..RegsOf("s", 0) : k1 < k2 => FirstPos("sc", 0, k2) < FirstPos("sc", 0, k1)
    /\ \A j \in 1..Len(Ev) : Ev[j].f \in {"b", "ic", "s"} =>
          \A kk \in 1..RegsOf("s", 0) : j < FirstPos("sc", 0, kk)
\* C06: a failure inside a setup cleanup fails the run
TeardownFailureFailsRun == Finished =>
    ((\E kk \in 1..RegsOf("s", 0) : MarksFailed(ProgOf("sc", 0, kk))) =>
        \E j \in 1..Len(errs) : errs[j] = "teardown failed")
\* C07: an iteration is failed iff one of its executed bodies marked failure or stopped; failures
\* inside its cleanups do not count; counts add up
Classified == Finished =>
    /\ fail = Cardinality({i \in Iters : \E cc \in Comps : Ran("b", i, cc) /\ MarksFailed(ProgOf("b", i, cc))})
    /\ (~sFailed) => succ + fail = NIter
    /\ sFailed => succ + fail = 0
\* C20: components in order in every iteration; a stop skips the later ones in THAT iteration only
ComponentsInOrder == Finished => \A i \in Iters :
    /\ \A cc \in Comps : Count("b", i, cc) <= 1
    /\ \A c1, c2 \in Comps : (c1 < c2 /\ Ran("b", i, c2)) =>
          Ran("b", i, c1) /\ FirstPos("b", i, c1) < FirstPos("b", i, c2) /\ ~Stops(ProgOf("b", i, c1))
    /\ (~sFailed) => Ran("b", i, 1)
    /\ \A cc \in Comps : (cc > 1 /\ ~sFailed /\ ~Ran("b", i, cc)) =>
          \E c1 \in 1..(cc - 1) : Ran("b", i, c1) /\ Stops(ProgOf("b", i, c1))

\* emits every finished behaviour (program + required log) for model-based replay on the real code
Emit == Finished => PrintT(<<"BEH", ToJson(log)>>)
=============================================================================
