------------------------------ MODULE MC_Metrics ------------------------------
EXTENDS Metrics
MCVal(k) == IF k = "a" THEN "b" ELSE "a"      \* values that are other keys' names
==============================================================================
