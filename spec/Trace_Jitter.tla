--------------------------- MODULE Trace_Jitter ---------------------------
(* Validates logs of the REAL api.WithJitter.  One ndjson line = one trace:                       *)
(*   {"J": scaled jitter, "ev": [[r, out], ...]}                                                   *)
EXTENDS Integers, Sequences, Json, IOUtils, TLC
T == ndJsonDeserialize(IOEnv.TRACE_FILE)
VARIABLES J, b, sumIn, sumOut, steps, rmax, tr, i, ok
Jt == INSTANCE Jitter WITH JSet <- {0}, MaxRate <- 0, MaxSteps <- 0

Init == /\ tr \in 1..Len(T) /\ i = 0 /\ ok = TRUE
        /\ J = T[tr].J /\ b = 0 /\ sumIn = 0 /\ sumOut = 0 /\ steps = 0 /\ rmax = 0
Next == /\ i < Len(T[tr].ev)
        /\ LET r == T[tr].ev[i + 1][1]  out == T[tr].ev[i + 1][2] IN
             /\ i' = i + 1
             /\ ok' = Jt!OutAllowed(J, r + b, out)
             /\ b' = r + b - out /\ sumIn' = sumIn + r /\ sumOut' = sumOut + out
             /\ steps' = steps + 1 /\ rmax' = Jt!Max(rmax, r)
             /\ UNCHANGED <<J, tr>>
Accepted == ok
CarryExact == Jt!CarryExact
\* (the closed-form bound is stated for non-negative rates; a profile that dips below zero builds up debt by design)
BalanceBounded == (T[tr].shape # "dip") => Jt!BalanceBounded
ZeroIsIdentity == Jt!ZeroIsIdentity
=============================================================================
