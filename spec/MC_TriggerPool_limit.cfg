SPECIFICATION Spec
CONSTANTS Workers = {w1, w2}  TickSizes = {2, 3}  MaxTicks = 2  MaxIter = 2  AllowCancel = FALSE  BodiesEnd = TRUE  LimitDrains = TRUE
INVARIANTS TypeOK NoOverCount Conservation Ceiling Gapless StartedMatchesIds MutexOK LimitSilent
PROPERTIES Termination
CHECK_DEADLOCK FALSE
