---------------------------- MODULE RunLifecycle ----------------------------
(* C05 — the tail of run.Run.Do (internal/run/test_runner.go) against the progress goroutine        *)
(* (raterun.Runner invoking Result.SnapshotProgress / Result.Progress) under Go's sync.RWMutex       *)
(* (internal/run/result.go: Summary / Teardown / Failed take a read lock and call methods that take  *)
(* the read lock AGAIN).  Go's RWMutex blocks NEW readers while a writer is waiting - so a nested    *)
(* RLock behind a pending writer deadlocks.                                                           *)
(*   main     : run() returns -> progressRunner.Stop() -> GetTotals (Lock) -> teardown view (RLock,   *)
(*              nested RLock) -> summary view (RLock, nested RLock x2) -> return                      *)
(*   progress : on a tick: SnapshotProgress (Lock) ; Progress (RLock) ; on cancel: exit               *)
(* StopWaits = TRUE : Stop() returns only after the progress goroutine has exited (repaired runner)   *)
(* StopWaits = FALSE: Stop() returns at once; a tick that was due may still run afterwards            *)
EXTENDS Integers

CONSTANTS MaxTicks, StopWaits

VARIABLES mpc, ppc, readers, writer, writerWaiting, mainReads, cancelled, ticks, tickDue
vars == <<mpc, ppc, readers, writer, writerWaiting, mainReads, cancelled, ticks, tickDue>>

Init == /\ mpc = "running" /\ ppc = "select" /\ readers = 0 /\ writer = "" /\ writerWaiting = {}
        /\ mainReads = 0 /\ cancelled = FALSE /\ ticks = 0 /\ tickDue = FALSE

(* ---- sync.RWMutex ---- *)
CanRLock == writer = "" /\ writerWaiting = {}
RLock == CanRLock /\ readers' = readers + 1
RUnlock == readers' = readers - 1
\* Lock = announce (pending writers block new readers), then acquire when no reader and no writer
Announce(p) == writerWaiting' = writerWaiting \cup {p}
CanAcquire(p) == p \in writerWaiting /\ readers = 0 /\ writer = ""
Acquire(p) == CanAcquire(p) /\ writer' = p /\ writerWaiting' = writerWaiting \ {p}
Unlock(p) == writer = p /\ writer' = ""

(* ---- progress goroutine ---- *)
TickFire == /\ ticks < MaxTicks /\ ppc # "exited" /\ ~tickDue /\ tickDue' = TRUE /\ ticks' = ticks + 1
            /\ UNCHANGED <<mpc, ppc, readers, writer, writerWaiting, mainReads, cancelled>>
PTick == /\ ppc = "select" /\ tickDue /\ tickDue' = FALSE /\ ppc' = "announce"
         /\ UNCHANGED <<mpc, readers, writer, writerWaiting, mainReads, cancelled, ticks>>
PExit == /\ ppc = "select" /\ cancelled /\ ppc' = "exited"
         /\ UNCHANGED <<mpc, readers, writer, writerWaiting, mainReads, cancelled, ticks, tickDue>>
PAnnounce == /\ ppc = "announce" /\ Announce("P") /\ ppc' = "acquire"
             /\ UNCHANGED <<mpc, readers, writer, mainReads, cancelled, ticks, tickDue>>
PAcquire == /\ ppc = "acquire" /\ Acquire("P") /\ ppc' = "snap"
            /\ UNCHANGED <<mpc, readers, mainReads, cancelled, ticks, tickDue>>
PUnlock == /\ ppc = "snap" /\ Unlock("P") /\ ppc' = "progress"
           /\ UNCHANGED <<mpc, readers, writerWaiting, mainReads, cancelled, ticks, tickDue>>
PProgR == /\ ppc = "progress" /\ RLock /\ ppc' = "progressU"
          /\ UNCHANGED <<mpc, writer, writerWaiting, mainReads, cancelled, ticks, tickDue>>
PProgU == /\ ppc = "progressU" /\ RUnlock /\ ppc' = "select"
          /\ UNCHANGED <<mpc, writer, writerWaiting, mainReads, cancelled, ticks, tickDue>>
Progress == PTick \/ PExit \/ PAnnounce \/ PAcquire \/ PUnlock \/ PProgR \/ PProgU

(* ---- main goroutine ---- *)
MRunEnds == /\ mpc = "running" /\ mpc' = "stop"
            /\ UNCHANGED <<ppc, readers, writer, writerWaiting, mainReads, cancelled, ticks, tickDue>>
MStopCancel == /\ mpc = "stop" /\ cancelled' = TRUE /\ mpc' = "stopwait"
               /\ UNCHANGED <<ppc, readers, writer, writerWaiting, mainReads, ticks, tickDue>>
MStopReturn == /\ mpc = "stopwait" /\ (StopWaits => ppc = "exited") /\ mpc' = "totalsA"
               /\ UNCHANGED <<ppc, readers, writer, writerWaiting, mainReads, cancelled, ticks, tickDue>>
MTotalsA == /\ mpc = "totalsA" /\ Announce("M") /\ mpc' = "totalsL"
            /\ UNCHANGED <<ppc, readers, writer, mainReads, cancelled, ticks, tickDue>>
MTotalsL == /\ mpc = "totalsL" /\ Acquire("M") /\ mpc' = "totalsU"
            /\ UNCHANGED <<ppc, readers, mainReads, cancelled, ticks, tickDue>>
MTotalsU == /\ mpc = "totalsU" /\ Unlock("M") /\ mpc' = "tdOuter"
            /\ UNCHANGED <<ppc, readers, writerWaiting, mainReads, cancelled, ticks, tickDue>>
\* a view method: outer RLock, `n` nested RLock/RUnlock pairs, outer RUnlock
MOuter(here, next) == /\ mpc = here /\ RLock /\ mainReads' = mainReads + 1 /\ mpc' = next
                      /\ UNCHANGED <<ppc, writer, writerWaiting, cancelled, ticks, tickDue>>
MNestedR(here, next) == MOuter(here, next)
MNestedU(here, next) == /\ mpc = here /\ RUnlock /\ mainReads' = mainReads - 1 /\ mpc' = next
                        /\ UNCHANGED <<ppc, writer, writerWaiting, cancelled, ticks, tickDue>>
Main == \/ MRunEnds \/ MStopCancel \/ MStopReturn \/ MTotalsA \/ MTotalsL \/ MTotalsU
        \* teardown view: RLock ; Error(): RLock, RUnlock ; RUnlock
        \/ MOuter("tdOuter", "tdN1") \/ MNestedR("tdN1", "tdN1u") \/ MNestedU("tdN1u", "tdOuterU") \/ MNestedU("tdOuterU", "sumOuter")
        \* summary view: RLock ; Error(): RLock,RUnlock ; Failed(): RLock, (Error(): RLock, RUnlock), RUnlock ; RUnlock
        \/ MOuter("sumOuter", "sumE") \/ MNestedR("sumE", "sumEu") \/ MNestedU("sumEu", "sumF")
        \/ MNestedR("sumF", "sumFE") \/ MNestedR("sumFE", "sumFEu") \/ MNestedU("sumFEu", "sumFu") \/ MNestedU("sumFu", "sumOuterU")
        \/ MNestedU("sumOuterU", "returned")

Next == Main \/ Progress \/ TickFire
Spec == Init /\ [][Next]_vars /\ WF_vars(Main) /\ WF_vars(Progress)

TypeOK == readers >= 0 /\ mainReads >= 0 /\ mainReads <= readers
\* every run returns
Returns == <>(mpc = "returned")
\* no progress is reported once Do has returned without the completion timeout
QuietAfterReturn == (mpc = "returned" /\ StopWaits) => ppc = "exited"
\* the wedge: main holds a read lock, a writer is pending, main needs another read lock
Wedged == mainReads > 0 /\ writerWaiting # {} /\ mpc \in {"tdN1", "sumE", "sumF", "sumFE"}
NeverWedged == ~Wedged
=============================================================================
