SPECIFICATION ImplSpec
CONSTANTS DurSet = {0, 1, 2, 5}  TargetSet <- MC_Targets_B  MaxStages = 3  MaxT = 13
INVARIANTS ZeroAfterEnd WithinTargets ImplAlwaysAllowed
PROPERTIES CursorMonotone
CHECK_DEADLOCK TRUE
