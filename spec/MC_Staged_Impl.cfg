SPECIFICATION ImplSpec
CONSTANTS DurSet = {0, 1, 2, 5}  TargetSet = {0, 1, 4, 7}  MaxStages = 3  MaxT = 13
INVARIANTS ZeroAfterEnd WithinTargets ImplAlwaysAllowed
PROPERTIES CursorMonotone
CHECK_DEADLOCK TRUE
