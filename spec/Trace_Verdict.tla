------------------------- MODULE Trace_Verdict -------------------------
(* Validates observations of the real Result.Failed() / CLI error against Verdict.        *)
(* Each ndjson line is one observation; every line is its own initial state.             *)
EXTENDS Integers, Sequences, Json, IOUtils, TLC

Obs == ndJsonDeserialize(IOEnv.TRACE_FILE)

V == INSTANCE Verdict WITH MaxCount <- 0, MaxFSet <- {0}, MaxFRSet <- {0},
        s <- 0, f <- 0, d <- 0, nerr <- 0, ign <- FALSE, maxF <- 0, maxFR <- 0

VARIABLE l
Init == l \in 1..Len(Obs)
Next == UNCHANGED l

Expected(r) == V!Failed(r.s, r.f, r.d, r.nerr, r.ign, r.maxF, r.maxFR)

\* kind "lib": Result.Failed() on the real Result; kind "cli": error returned by the command
RowOK(r) == /\ r.panicked = FALSE
            /\ r.failed = Expected(r)
Inv == RowOK(Obs[l])
=============================================================================
