------------------------------- MODULE F1Run -------------------------------
(* The integrated OBSERVER specification of one whole f1 run at API level.                         *)
(* A trace is what can be seen of a REAL run.Run.Do from outside: the scenario function (setup,    *)
(* body start/end with iteration id and handle, cleanups), the verif hooks in free-running mode    *)
(* (rate evaluations, published tick sizes in cond-lock order, reported drops, limit/stop path),   *)
(* the captured progress log, the returned Result, the exported metrics and what is still alive    *)
(* afterwards.  Every event updates the observer state; every clause that an event must satisfy   *)
(* is tagged with the property it belongs to, and failing clauses are accumulated in `why`.        *)
(*                                                                                                  *)
(* trace = {"cfg": {...}, "ev": [ {"k":kind,"a":..,"b":..,"c":..,"d":..,"s":..}, ... ]}             *)
EXTENDS Integers, Sequences, FiniteSets, Json, IOUtils, TLC

T == ndJsonDeserialize(IOEnv.TRACE_FILE)

VARIABLES tr, i,
          setupSeen,        \* -1 none, 0 failed, 1 ok
          ids, liveIds, liveH, endedIds, cleaned,
          succT, failT,     \* ground truth outcomes of finished bodies
          sumTicks, lateSum, dropSum, stopSeen, limitSeen,
          evals, firstEvalT, pendingV,
          progS, progF,
          cancelT, timeoutSeen, retSeen, ret,
          stageEvals, stageEvalT, \* rate evaluations since the current file stage began, and when the first of them was made
          stageBeginT,      \* when the current file stage began
          banner,           \* what the summary said ("passed" | "failed"; "" = no summary seen)
          lastCleanT,       \* when a worker last became free (an iteration's cleanups finished); -1: never
          ninv,             \* light runs: number of invocations of the iteration function, counted by the harness (-1: not told)
          dupSeen,          \* an iteration id was observed twice: bookkeeping keyed by id is unreliable from then on (C03's business)
          preCancelled,     \* cancel() had RETURNED while setup was still running: triggering starts on a dead context
          mS, mF, mD, mSetup, mSetupRes, labelsBad,
          stageCur, stageOpen, setupCleanupSeen, rvOK,
          skipped,          \* rate evaluations that were not passed to the pool so far
          lmax,             \* contention ("light") runs: highest id of the contiguous prefix 1..lmax seen so far
          why
vars == <<tr, i, setupSeen, ids, liveIds, liveH, endedIds, cleaned, succT, failT, sumTicks, lateSum, dropSum,
          stopSeen, limitSeen, evals, firstEvalT, pendingV, progS, progF, cancelT, timeoutSeen, retSeen, ret,
          mS, mF, mD, mSetup, mSetupRes, labelsBad, stageCur, stageOpen, setupCleanupSeen, rvOK, lmax, skipped, preCancelled, ninv, dupSeen, lastCleanT, banner, stageBeginT, stageEvals, stageEvalT, why>>

Cfg == T[tr].cfg
Min(a, b) == IF a < b THEN a ELSE b
SLACK == 1000000      \* 1 s, one-sided, for wall-clock clauses
\* the instant triggering must have stopped: earliest of max-duration (less the 10 ms guard), the
\* trigger's own duration, cancellation
Deadline == LET d1 == Cfg.maxdur_us
                d2 == IF Cfg.trigdur_us > 0 /\ Cfg.trigdur_us < d1 THEN Cfg.trigdur_us ELSE d1
                d3 == IF cancelT >= 0 /\ cancelT < d2 THEN cancelT ELSE d2
            IN d3

F(p, c) == [p |-> p, c |-> c]
\* failing clauses among a sequence of <<holds, property, clause>>
Fails(cs) == {F(cs[j][2], cs[j][3]) : j \in {k \in 1..Len(cs) : ~cs[k][1]}}

Init == /\ tr \in 1..Len(T) /\ i = 0
        /\ setupSeen = -1 /\ ids = {} /\ liveIds = {} /\ liveH = {} /\ endedIds = {} /\ cleaned = {}
        /\ succT = 0 /\ failT = 0 /\ sumTicks = 0 /\ lateSum = 0 /\ dropSum = 0
        /\ stopSeen = FALSE /\ limitSeen = FALSE /\ evals = 0 /\ firstEvalT = 0 /\ pendingV = -1
        /\ progS = 0 /\ progF = 0 /\ cancelT = -1 /\ timeoutSeen = FALSE /\ retSeen = FALSE
        /\ ret = [s |-> 0, f |-> 0, d |-> 0, t |-> 0]
        /\ mS = 0 /\ mF = 0 /\ mD = 0 /\ mSetup = 0 /\ mSetupRes = "" /\ labelsBad = FALSE
        /\ stageCur = 0 /\ stageOpen = FALSE /\ setupCleanupSeen = FALSE /\ rvOK = FALSE /\ lmax = 0 /\ skipped = 0
        /\ preCancelled = FALSE /\ ninv = -1 /\ dupSeen = FALSE /\ lastCleanT = -1 /\ banner = "" /\ stageBeginT = -1 /\ stageEvals = 0 /\ stageEvalT = -1
        /\ why = IF T[tr].err = "" THEN {} ELSE {F("MACHINERY", T[tr].err)}

Unch(vs) == UNCHANGED vs

(* ---------------------------------------------------------------- events *)
Setup(e) ==
    /\ why' = why \cup Fails(<< <<setupSeen = -1, "C06", "setup-ran-twice">>,
                                 <<ids = {}, "C06", "setup-after-iteration">> >>)
    /\ setupSeen' = e.a
    /\ Unch(<<lmax, skipped, ids, liveIds, liveH, endedIds, cleaned, succT, failT, sumTicks, lateSum, dropSum, stopSeen, limitSeen, evals,
              firstEvalT, pendingV, progS, progF, cancelT, timeoutSeen, retSeen, ret, mS, mF, mD, mSetup, mSetupRes,
              labelsBad, stageCur, stageOpen, setupCleanupSeen, rvOK>>)

Eval(e) ==
    LET t0 == IF evals = 0 THEN e.c ELSE firstEvalT
        cadenceOK == IF Cfg.interval_us > 0 /\ Cfg.mode # "file"
                     THEN (evals + 1) <= 1 + ((e.c - t0 + 1) \div Cfg.interval_us)
                     ELSE TRUE
        \* staged STEP profiles: the value follows REAL time. The profile's clock starts no earlier than the run's (c counts
        \* from before the trigger was built), so 50 ms before the step the value is still 0; 150 ms after it the value is
        \* the step's - except for the one tick that was already waiting when a stalled trigger goroutine came back
        \* (it carries its old timestamp): the clause speaks from the second evaluation after the stall
        stepOK == \/ Cfg.step_at_us = 0
                  \/ (e.c + 50000 <= Cfg.step_at_us /\ e.a = 0)
                  \/ (e.c + 50000 > Cfg.step_at_us /\ e.c < Cfg.step_at_us + 150000)
                  \/ (e.c >= Cfg.step_at_us + 150000 /\ (e.a = Cfg.step_val \/ evals + 1 < Cfg.stall_eval + 2))
        \* config-file runs: the same bound inside each stage, with the interval THAT stage is configured for
        ivs == Cfg.stage_intervals_us
        fileCadenceOK == \/ Cfg.mode # "file" \/ ~stageOpen \/ stageCur < 1 \/ stageCur > Len(ivs)
                         \/ ivs[stageCur] = 0
                         \/ stageEvals + 1 <= 1 + ((e.c - (IF stageEvalT < 0 THEN e.c ELSE stageEvalT) + 1) \div ivs[stageCur])
    IN /\ why' = why \cup Fails(<< <<cadenceOK, "C09", "more-evaluations-than-ticks">>,
                                   <<fileCadenceOK, "C09", "more-evaluations-than-ticks-of-the-stage-interval">>,
                                   <<stepOK, "C10", "evaluated-value-is-not-the-profile-at-that-time">> >>)
       /\ evals' = evals + 1 /\ firstEvalT' = t0 /\ pendingV' = e.a
       /\ skipped' = IF pendingV # -1 THEN skipped + 1 ELSE skipped
       /\ Unch(<<lmax, setupSeen, ids, liveIds, liveH, endedIds, cleaned, succT, failT, sumTicks, lateSum, dropSum, stopSeen,
                 limitSeen, progS, progF, cancelT, timeoutSeen, retSeen, ret, mS, mF, mD, mSetup, mSetupRes, labelsBad,
                 stageCur, stageOpen, setupCleanupSeen, rvOK>>)

Tick(e) ==
    /\ why' = why \cup Fails(<< <<Cfg.mode = "file" \/ Cfg.rate_mode = FALSE \/ Cfg.pool_only \/ e.a = pendingV, "C09", "published-value-differs-from-evaluation">>,
                                 \* a published tick proves the context was not done before: every earlier evaluation had to be published
                                 <<Cfg.pool_only \/ Cfg.mode = "file" \/ skipped = 0, "C09", "evaluation-not-passed-to-the-pool">>,
                                 \* cancel() had returned 100 ms before this publication: its context check cannot have passed
                                 <<cancelT < 0 \/ Cfg.pool_only \/ e.c <= cancelT + 100000, "C05", "request-published-after-cancellation">> >>)
    \* a negative value (a profile below zero) is passed on unchanged and requests nothing
    /\ IF stopSeen THEN lateSum' = lateSum + (IF e.a > 0 THEN e.a ELSE 0) /\ Unch(sumTicks)
                   ELSE sumTicks' = sumTicks + (IF e.a > 0 THEN e.a ELSE 0) /\ Unch(lateSum)
    /\ pendingV' = -1
    /\ Unch(<<lmax, skipped, setupSeen, ids, liveIds, liveH, endedIds, cleaned, succT, failT, dropSum, stopSeen, limitSeen, evals,
              firstEvalT, progS, progF, cancelT, timeoutSeen, retSeen, ret, mS, mF, mD, mSetup, mSetupRes, labelsBad,
              stageCur, stageOpen, setupCleanupSeen, rvOK>>)

StopFlag(e) ==
    /\ stopSeen' = TRUE /\ why' = why
    /\ Unch(<<lmax, skipped, setupSeen, ids, liveIds, liveH, endedIds, cleaned, succT, failT, sumTicks, lateSum, dropSum, limitSeen, evals,
              firstEvalT, pendingV, progS, progF, cancelT, timeoutSeen, retSeen, ret, mS, mF, mD, mSetup, mSetupRes,
              labelsBad, stageCur, stageOpen, setupCleanupSeen, rvOK>>)

Limit(e) ==
    /\ limitSeen' = TRUE
    /\ why' = why \cup Fails(<< <<Cfg.maxiter > 0, "C03", "limit-path-without-limit">> >>)
    /\ Unch(<<lmax, skipped, setupSeen, ids, liveIds, liveH, endedIds, cleaned, succT, failT, sumTicks, lateSum, dropSum, stopSeen, evals,
              firstEvalT, pendingV, progS, progF, cancelT, timeoutSeen, retSeen, ret, mS, mF, mD, mSetup, mSetupRes,
              labelsBad, stageCur, stageOpen, setupCleanupSeen, rvOK>>)

\* n requests reported dropped (b = 1: by the stop path)
DropEv(e) ==
    LET started == Cardinality(ids)
        \* drops reported by the stop path after the limit was reached, with no cancel and the deadline
        \* still ahead, are requests that could not start SOLELY because of the limit
        limitAlone == limitSeen /\ cancelT < 0 /\ e.c + SLACK < Deadline
    IN /\ why' = why \cup Fails(<<
            <<Cfg.mode = "file" \/ started + dropSum + e.a <= sumTicks + lateSum, "C02", "more-started-plus-dropped-than-requested">>,
            <<~(e.b = 1 /\ limitAlone), "C02", "limit-discard-reported-as-dropped">>,
            \* the same by counts: max-iterations iterations have been started, workers of the CONFIGURED concurrency are
            \* free and have been for 100 ms, nobody cancelled and the deadline is ahead - a request that is still pending
            \* at a tick could not start solely because of the limit
            <<~(e.a > 0 /\ Cfg.maxiter > 0 /\ ~Cfg.light /\ ~Cfg.pool_only /\ Cfg.mode # "file" /\ ~dupSeen
                /\ started >= Cfg.maxiter /\ Cardinality(liveH) < Cfg.conc /\ e.c > lastCleanT + 100000
                /\ cancelT < 0 /\ e.c + SLACK < Deadline), "C02", "limit-discard-reported-as-dropped">> >>)
       /\ dropSum' = dropSum + e.a
       /\ Unch(<<lmax, skipped, setupSeen, ids, liveIds, liveH, endedIds, cleaned, succT, failT, sumTicks, lateSum, stopSeen, limitSeen, evals,
                 firstEvalT, pendingV, progS, progF, cancelT, timeoutSeen, retSeen, ret, mS, mF, mD, mSetup, mSetupRes,
                 labelsBad, stageCur, stageOpen, setupCleanupSeen, rvOK>>)

Start(e) ==
    /\ why' = why \cup Fails(<<
          <<setupSeen = 1, "C06", "iteration-without-successful-setup">>,
          <<e.a \notin ids, "C03", "duplicate-iteration-id">>,
          <<e.a >= 1, "C03", "id-not-positive">>,
          <<Cfg.maxiter = 0 \/ (e.a <= Cfg.maxiter /\ Cardinality(ids) + 1 <= Cfg.maxiter), "C03", "more-invocations-than-max-iterations">>,
          \* the same fact as C05 states it: triggering stops AT the max-iterations limit
          <<Cfg.maxiter = 0 \/ Cardinality(ids) + 1 <= Cfg.maxiter, "C05", "iteration-requested-beyond-the-max-iterations-limit">>,
          <<Cfg.mode = "file" \/ Cfg.light \/ Cardinality(liveH) < Cfg.conc, "C04", "more-than-concurrency-in-flight">>,
          <<Cfg.light \/ e.b \notin liveH, "C04", "handle-shared-by-concurrent-iterations">>,
          <<e.d = 0, "C07", "iteration-started-in-failed-state">>,
          \* the caller's cancel() had returned before setup finished: nothing may be requested at all
          <<~preCancelled, "C05", "iteration-started-although-cancelled-before-triggering-began">>,
          <<Cfg.light \/ e.c <= Deadline + SLACK, "C05", "iteration-started-after-triggering-should-have-stopped">>,
          <<Cfg.rate_mode = FALSE \/ Cfg.mode = "file" \/ Cardinality(ids) + 1 + dropSum <= sumTicks + lateSum, "C02", "started-more-than-requested">>,
          <<Cfg.light \/ ~setupCleanupSeen, "C06", "iteration-after-setup-cleanups">> >>)
    /\ ids' = ids \cup {e.a}
    /\ IF Cfg.light THEN Unch(<<lmax, skipped, liveIds, liveH>>)      \* contention runs log the ids only, after the run
       ELSE liveIds' = liveIds \cup {e.a} /\ liveH' = liveH \cup {e.b}
    /\ Unch(<<lmax, skipped, setupSeen, endedIds, cleaned, succT, failT, sumTicks, lateSum, dropSum, stopSeen, limitSeen, evals, firstEvalT,
              pendingV, progS, progF, cancelT, timeoutSeen, retSeen, ret, mS, mF, mD, mSetup, mSetupRes, labelsBad,
              stageCur, stageOpen, setupCleanupSeen, rvOK>>)

\* contention runs: after the run the harness sorts the ids its bodies recorded (lock-free) and
\* reports maximal runs of consecutive ids a..b in increasing order; a duplicate or a gap breaks
\* the chain  a = lmax + 1
IdRange(e) ==
    /\ why' = why \cup Fails(<<
          <<setupSeen = 1, "C06", "iteration-without-successful-setup">>,
          <<e.a = lmax + 1 /\ e.b >= e.a, "C03", "iteration-ids-not-unique-and-gapless">>,
          <<Cfg.maxiter = 0 \/ e.b <= Cfg.maxiter, "C03", "more-invocations-than-max-iterations">>,
          \* (C05 counts invocations, whatever ids they were given: the ids are C03's business)
          <<Cfg.maxiter = 0 \/ ninv < 0 \/ ninv <= Cfg.maxiter, "C05", "iteration-requested-beyond-the-max-iterations-limit">> >>)
    /\ lmax' = IF e.b > lmax THEN e.b ELSE lmax
    /\ Unch(<<skipped, setupSeen, ids, liveIds, liveH, endedIds, cleaned, succT, failT, sumTicks, lateSum, dropSum, stopSeen, limitSeen,
              evals, firstEvalT, pendingV, progS, progF, cancelT, timeoutSeen, retSeen, ret, mS, mF, mD, mSetup, mSetupRes,
              labelsBad, stageCur, stageOpen, setupCleanupSeen, rvOK>>)

End(e) ==
    /\ why' = why \cup Fails(<< <<dupSeen \/ (e.a \in liveIds /\ e.b \in liveH), "C06", "end-without-start">>,
                                 \* c = the id the invocation observes when its body ends (a = the id it observed at its start)
                                 <<e.b2 = "" \/ e.b2 = "same-id", "C03", "iteration-id-changed-during-the-invocation">> >>)
    \* the body has returned; its handle stays in use until the iteration's cleanups have run (Cleanup)
    /\ liveIds' = liveIds \ {e.a} /\ liveH' = liveH /\ endedIds' = endedIds \cup {e.a}
    /\ IF e.d = 1 THEN failT' = failT + 1 /\ Unch(succT) ELSE succT' = succT + 1 /\ Unch(failT)
    /\ Unch(<<lmax, skipped, setupSeen, ids, cleaned, sumTicks, lateSum, dropSum, stopSeen, limitSeen, evals, firstEvalT, pendingV, progS,
              progF, cancelT, timeoutSeen, retSeen, ret, mS, mF, mD, mSetup, mSetupRes, labelsBad, stageCur, stageOpen,
              setupCleanupSeen, rvOK>>)

\* the cleanup registered by iteration e.a on handle e.b
Cleanup(e) ==
    /\ why' = why \cup Fails(<<
          <<dupSeen \/ e.a \in endedIds, "C06", "cleanup-before-body-ended">>,
          <<dupSeen \/ e.a \notin cleaned, "C06", "cleanup-ran-twice">>,
          <<e.b \in liveH, "C06", "cleanup-after-its-handle-was-given-to-another-iteration">> >>)
    /\ cleaned' = cleaned \cup {e.a}
    /\ liveH' = liveH \ {e.b}          \* only now is the handle free for the worker's next iteration
    /\ Unch(<<lmax, skipped, setupSeen, ids, liveIds, endedIds, succT, failT, sumTicks, lateSum, dropSum, stopSeen, limitSeen, evals,
              firstEvalT, pendingV, progS, progF, cancelT, timeoutSeen, retSeen, ret, mS, mF, mD, mSetup, mSetupRes,
              labelsBad, stageCur, stageOpen, setupCleanupSeen, rvOK>>)

SetupCleanup(e) ==
    /\ why' = why \cup Fails(<<
          <<~setupCleanupSeen, "C06", "setup-cleanup-ran-twice">>,
          <<Cfg.light \/ timeoutSeen \/ (liveIds = {} /\ e.a = 0), "C06", "setup-cleanup-while-iterations-in-flight">>,
          <<~retSeen, "C06", "setup-cleanup-after-return">> >>)
    /\ setupCleanupSeen' = TRUE
    /\ Unch(<<lmax, skipped, setupSeen, ids, liveIds, liveH, endedIds, cleaned, succT, failT, sumTicks, lateSum, dropSum, stopSeen, limitSeen,
              evals, firstEvalT, pendingV, progS, progF, cancelT, timeoutSeen, retSeen, ret, mS, mF, mD, mSetup, mSetupRes,
              labelsBad, stageCur, stageOpen, rvOK>>)

Progress(e) ==
    /\ why' = why \cup Fails(<<
          <<Cfg.light \/ e.a + e.b <= Cardinality(endedIds), "C01", "progress-shows-more-than-finished">>,
          <<e.a >= progS /\ e.b >= progF, "C01", "progress-counts-decreased">>,
          <<e.d <= dropSum, "C01", "progress-shows-more-dropped-than-reported">> >>)
    /\ progS' = e.a /\ progF' = e.b
    /\ Unch(<<lmax, skipped, setupSeen, ids, liveIds, liveH, endedIds, cleaned, succT, failT, sumTicks, lateSum, dropSum, stopSeen, limitSeen,
              evals, firstEvalT, pendingV, cancelT, timeoutSeen, retSeen, ret, mS, mF, mD, mSetup, mSetupRes, labelsBad,
              stageCur, stageOpen, setupCleanupSeen, rvOK>>)

Cancel(e) ==
    /\ cancelT' = e.c /\ why' = why
    /\ Unch(<<lmax, skipped, setupSeen, ids, liveIds, liveH, endedIds, cleaned, succT, failT, sumTicks, lateSum, dropSum, stopSeen, limitSeen,
              evals, firstEvalT, pendingV, progS, progF, timeoutSeen, retSeen, ret, mS, mF, mD, mSetup, mSetupRes, labelsBad,
              stageCur, stageOpen, setupCleanupSeen, rvOK>>)

\* d = microseconds since the run said why triggering stopped. The wait for in-flight iterations lasts until they have
\* all finished or the completion timeout has expired: a warning that comes earlier (a timer cannot fire early) means
\* the run gave up - and went on to tear down - while it still had to wait.
TimeoutMsg(e) ==
    /\ timeoutSeen' = TRUE
    /\ why' = why \cup Fails(<<
          <<e.d < 0 \/ e.d + 1000 >= Cfg.wait_us, "C05", "completion-timeout-announced-before-it-had-expired">>,
          \* the wait is for in-flight iterations: with none (no handle in use) there is nothing to time out on - the
          \* pool failed to complete although all its work was done
          <<Cfg.light \/ Cfg.pool_only \/ liveH # {}, "C05", "completion-timeout-with-no-iteration-in-flight">>,
          <<e.d < 0 \/ e.d + 1000 >= Cfg.wait_us, "C06", "teardown-released-before-iterations-finished-or-the-timeout-expired">> >>)
    /\ Unch(<<lmax, skipped, setupSeen, ids, liveIds, liveH, endedIds, cleaned, succT, failT, sumTicks, lateSum, dropSum, stopSeen, limitSeen,
              evals, firstEvalT, pendingV, progS, progF, cancelT, retSeen, ret, mS, mF, mD, mSetup, mSetupRes, labelsBad,
              stageCur, stageOpen, setupCleanupSeen, rvOK>>)

\* Do() had not returned by max-duration + completion timeout + 3 s
NoReturn(e) ==
    /\ why' = why \cup {F("C05", "run-did-not-return")}
    /\ timeoutSeen' = TRUE
    /\ Unch(<<lmax, skipped, setupSeen, ids, liveIds, liveH, endedIds, cleaned, succT, failT, sumTicks, lateSum, dropSum, stopSeen, limitSeen,
              evals, firstEvalT, pendingV, progS, progF, cancelT, retSeen, ret, mS, mF, mD, mSetup, mSetupRes, labelsBad,
              stageCur, stageOpen, setupCleanupSeen, rvOK>>)

\* cooperative pool schedules: nothing can move except the canceller; a = workers parked in Cond.Wait
Idle(e) ==
    /\ why' = why \cup Fails(<<
          <<limitSeen \/ stopSeen \/ e.a = 0 \/ sumTicks + lateSum = Cardinality(ids) + dropSum, "C04", "workers-idle-while-requests-pending">> >>)
    /\ Unch(<<lmax, skipped, setupSeen, ids, liveIds, liveH, endedIds, cleaned, succT, failT, sumTicks, lateSum, dropSum, stopSeen, limitSeen,
              evals, firstEvalT, pendingV, progS, progF, cancelT, timeoutSeen, retSeen, ret, mS, mF, mD, mSetup, mSetupRes,
              labelsBad, stageCur, stageOpen, setupCleanupSeen, rvOK>>)

Rendezvous(e) ==
    /\ rvOK' = (e.a = 1) /\ why' = why
    /\ Unch(<<lmax, skipped, setupSeen, ids, liveIds, liveH, endedIds, cleaned, succT, failT, sumTicks, lateSum, dropSum, stopSeen, limitSeen,
              evals, firstEvalT, pendingV, progS, progF, cancelT, timeoutSeen, retSeen, ret, mS, mF, mD, mSetup, mSetupRes,
              labelsBad, stageCur, stageOpen, setupCleanupSeen>>)

Return(e) ==
    LET n == IF Cfg.light THEN (IF ninv >= 0 THEN ninv ELSE lmax) ELSE Cardinality(ids)
        complete == ~timeoutSeen /\ liveIds = {}
        \* the trigger kept requesting until the limit stopped it
        endedByLimit == Cfg.maxiter > 0 /\ cancelT < 0 /\
                        (limitSeen \/ (Cfg.mode = "users" /\ e.c + SLACK < Cfg.maxdur_us))
    IN /\ why' = why \cup Fails(<<
            <<Cfg.light \/ ids = 1..n, "C03", "iteration-ids-not-gapless">>,
            <<~Cfg.light \/ ninv < 0 \/ lmax = ninv, "C03", "iteration-ids-not-unique-and-gapless">>,
            <<~endedByLimit \/ n = Cfg.maxiter, "C03", "not-exactly-max-iterations">>,
            <<Cfg.light \/ ~complete \/ (e.a = succT /\ e.b = failT), "C01", "result-counts-differ-from-executed-iterations">>,
            \* same number of iterations, but reported under the wrong outcome
            <<Cfg.light \/ ~complete \/ e.a + e.b # succT + failT \/ e.b = failT, "C07", "iterations-reported-under-the-wrong-outcome">>,
            <<~Cfg.light \/ timeoutSeen \/ e.a + e.b = n, "C01", "result-counts-differ-from-invocations">>,
            <<timeoutSeen \/ dupSeen \/ liveIds = {}, "C05", "returned-with-iterations-in-flight">>,
            <<e.d = dropSum, "C01", "result-dropped-differs-from-reported-drops">>,
            <<~(Cfg.rate_mode /\ Cfg.mode # "file" /\ Cfg.maxiter = 0 /\ lateSum = 0) \/ n + dropSum = sumTicks,
                  "C02", "request-neither-started-nor-dropped">>,
            <<~(Cfg.rate_mode /\ Cfg.mode # "file") \/ n + dropSum <= sumTicks + lateSum, "C02", "more-started-plus-dropped-than-requested">>,
            <<(setupSeen = 1) \/ n = 0, "C06", "iterations-after-failed-setup">>,
            \* a file plan that was neither cancelled, nor cut short by max-duration or a limit, nor stopped by a failed
            \* setup has executed every one of its stages
            <<Cfg.mode # "file" \/ cancelT >= 0 \/ Cfg.maxiter > 0 \/ setupSeen # 1 \/ Cfg.trigdur_us > Cfg.maxdur_us
                  \/ Cfg.file_stages = 0 \/ stageCur = Cfg.file_stages, "C15", "not-every-stage-of-the-plan-was-executed">>,
            <<~Cfg.setup_fail \/ e.s # "", "C06", "failed-setup-did-not-fail-the-run">>,
            <<~Cfg.teardown_fail \/ e.s # "", "C06", "failed-setup-cleanup-did-not-fail-the-run">>,
            \* the summary was rendered from this result: its banner is this verdict (b2 = passed | failed)
            <<banner = "" \/ e.b2 = "" \/ banner = e.b2, "C19", "summary-banner-differs-from-the-verdict">>,
            <<Cfg.pool_only \/ setupCleanupSeen, "C06", "setup-cleanup-missing-at-return">>,
            <<Cfg.light \/ ~complete \/ dupSeen \/ cleaned = ids, "C06", "iteration-cleanup-missing-at-return">>,
            <<~Cfg.rendezvous \/ rvOK, "C04", "not-all-workers-could-run-at-once">>,
            <<e.c <= Deadline + Cfg.wait_us + 3 * SLACK, "C05", "returned-too-late">> >>)
       /\ retSeen' = TRUE /\ ret' = [s |-> e.a, f |-> e.b, d |-> e.d, t |-> e.c]
       /\ Unch(<<lmax, skipped, setupSeen, ids, liveIds, liveH, endedIds, cleaned, succT, failT, sumTicks, lateSum, dropSum, stopSeen, limitSeen,
                 evals, firstEvalT, pendingV, progS, progF, cancelT, timeoutSeen, mS, mF, mD, mSetup, mSetupRes, labelsBad,
                 stageCur, stageOpen, setupCleanupSeen, rvOK>>)

\* one exported series: a = sample count, b = 0 iteration / 1 setup, s = sorted "k=v,k=v" labels,
\* d = 1 when the harness found the label set wrong (keys missing / static label not paired with its value)
Metric(e) ==
    /\ why' = why \cup Fails(<< <<e.d = 0, "C16", "series-label-set-wrong">> >>)
    /\ CASE e.b = 1 -> mSetup' = mSetup + e.a /\ mSetupRes' = e.s /\ Unch(<<lmax, skipped, mS, mF, mD>>)
         [] e.c = 0 -> mS' = mS + e.a /\ Unch(<<lmax, skipped, mF, mD, mSetup, mSetupRes>>)
         [] e.c = 1 -> mF' = mF + e.a /\ Unch(<<lmax, skipped, mS, mD, mSetup, mSetupRes>>)
         [] e.c = 2 -> mD' = mD + e.a /\ Unch(<<lmax, skipped, mS, mF, mSetup, mSetupRes>>)
         [] OTHER -> Unch(<<lmax, skipped, mS, mF, mD, mSetup, mSetupRes>>)
    /\ labelsBad' = (labelsBad \/ e.d # 0)
    /\ Unch(<<lmax, skipped, setupSeen, ids, liveIds, liveH, endedIds, cleaned, succT, failT, sumTicks, lateSum, dropSum, stopSeen, limitSeen,
              evals, firstEvalT, pendingV, progS, progF, cancelT, timeoutSeen, retSeen, ret, stageCur, stageOpen,
              setupCleanupSeen, rvOK>>)

\* summary line of the structured log: a/b/d = successful/failed/dropped, c = started, s = passed|failed
Summary(e) ==
    /\ why' = why   \* compared with the result in After (the summary is printed when Do returns)
    /\ progS' = e.a /\ progF' = e.b
    /\ Unch(<<lmax, skipped, setupSeen, ids, liveIds, liveH, endedIds, cleaned, succT, failT, sumTicks, lateSum, dropSum, stopSeen, limitSeen,
              evals, firstEvalT, pendingV, cancelT, timeoutSeen, retSeen, ret, mS, mF, mD, mSetup, mSetupRes, labelsBad,
              stageCur, stageOpen, setupCleanupSeen, rvOK>>)

\* after Do returned: a/b/c = body starts / body ends / progress lines seen after the return,
\* d = goroutines still executing f1 code, s = "environment left|first leaked goroutine"
After(e) ==
    /\ why' = why \cup Fails(<<
          <<timeoutSeen \/ e.a = 0, "C05", "iteration-started-after-return">>,
          <<timeoutSeen \/ e.b = 0, "C05", "iteration-still-running-after-return">>,
          <<timeoutSeen \/ e.c = 0, "C05", "progress-reported-after-return">>,
          \* the same fact as C18 states it: the run stops its periodic runner before it returns, and once that Stop has
          \* returned the runner's function is not executing and is never invoked again
          <<timeoutSeen \/ e.c = 0, "C18", "periodic-function-still-executing-after-the-run-stopped-its-runner">>,
          <<timeoutSeen \/ e.d = 0, "C05", "goroutine-of-the-run-remains">>,
          <<e.b2 = "", "C15", "stage-parameters-left-in-environment">>,
          <<mS = ret.s /\ mF = ret.f /\ mD = ret.d, "C16", "exported-iteration-samples-differ-from-result">>,
          <<mS = ret.s /\ mF = ret.f /\ mD = ret.d, "C01", "exported-iteration-metrics-do-not-carry-the-result-counts">>,
          \* as many samples as iterations, but some under the other outcome
          <<mS + mF # ret.s + ret.f \/ mF = ret.f, "C07", "exported-metric-reports-iterations-under-the-wrong-outcome">>,
          <<dropSum = ret.d, "C01", "iterations-reported-dropped-after-the-final-result">>,
          \* no completion timeout: whatever was executed - also what ended only after the return - is in the final result
          <<Cfg.light \/ timeoutSeen \/ dupSeen \/ ret.s + ret.f = succT + failT, "C01", "executed-iterations-missing-from-the-final-result">>,
          <<mSetup = 1, "C16", "setup-metric-not-exactly-one-sample">>,
          <<(setupSeen = 1) = (mSetupRes = "success"), "C16", "setup-metric-labelled-with-wrong-outcome">>,
          <<progS = ret.s /\ progF = ret.f, "C19", "summary-counts-differ-from-result">> >>)
    /\ Unch(<<lmax, skipped, setupSeen, ids, liveIds, liveH, endedIds, cleaned, succT, failT, sumTicks, lateSum, dropSum, stopSeen, limitSeen,
              evals, firstEvalT, pendingV, progS, progF, cancelT, timeoutSeen, retSeen, ret, mS, mF, mD, mSetup, mSetupRes,
              labelsBad, stageCur, stageOpen, setupCleanupSeen, rvOK>>)

\* file mode: a = stage number (1-based, in plan order), b = 1 begin / 0 end, s = observed environment,
\* b2 = the environment this stage must provide
Stage(e) ==
    /\ why' = why \cup Fails(<<
          <<IF e.b = 1 THEN (~stageOpen /\ e.a = stageCur + 1) ELSE (stageOpen /\ e.a = stageCur), "C15", "stages-not-strictly-sequential">>,
          <<e.s = e.b2, "C15", "stage-parameters-not-in-environment-while-triggering">>,
          \* d = microseconds since the FIRST stage began; the trigger deadline runs from before that moment, and the
          \* stage loop tests its context right before a stage begins: a stage that begins 100 ms past the deadline
          \* was started on a dead context (100 ms: far beyond any lateness of the deadline timer)
          <<e.b = 0 \/ e.d <= Deadline + 100000, "C05", "stage-begun-after-triggering-had-stopped">>,
          \* a stage that nobody cut short (no cancellation, no limit reached, the deadline still ahead) lasts its configured
          \* duration (e, microseconds; the stage loop ends it 20 ms early and sleeps those 20 ms before the next one)
          <<e.b = 1 \/ stageBeginT < 0 \/ cancelT >= 0 \/ limitSeen \/ Cfg.maxiter > 0 \/ e.d + 50000 >= Deadline
                \/ e.c - stageBeginT + 30000 >= e.e, "C15", "stage-ended-before-its-duration">> >>)
    /\ stageCur' = e.a /\ stageOpen' = (e.b = 1)
    /\ stopSeen' = IF e.b = 1 THEN FALSE ELSE stopSeen
    /\ Unch(<<lmax, skipped, setupSeen, ids, liveIds, liveH, endedIds, cleaned, succT, failT, sumTicks, lateSum, dropSum, limitSeen, evals,
              firstEvalT, pendingV, progS, progF, cancelT, timeoutSeen, retSeen, ret, mS, mF, mD, mSetup, mSetupRes,
              labelsBad, setupCleanupSeen, rvOK>>)

\* an evaluation of the CONFIGURED rate function under a sub-tick distribution (scripted cases): d = its ordinal,
\* c = time since the first one; it is configured for one value per uinterval_us
UEval(e) ==
    /\ why' = why \cup Fails(<<
          <<Cfg.uinterval_us = 0 \/ e.d <= 1 + ((e.c + 1) \div Cfg.uinterval_us), "C09", "configured-rate-evaluated-more-often-than-its-interval">> >>)
    /\ Unch(<<lmax, skipped, setupSeen, ids, liveIds, liveH, endedIds, cleaned, succT, failT, sumTicks, lateSum, dropSum, stopSeen, limitSeen,
              evals, firstEvalT, pendingV, progS, progF, cancelT, timeoutSeen, retSeen, ret, mS, mF, mD, mSetup, mSetupRes,
              labelsBad, stageCur, stageOpen, setupCleanupSeen, rvOK>>)

\* file mode: what the stage's trigger goroutine finds in the environment while it is still busy with a rate evaluation
\* (the caller has cancelled meanwhile): s = observed, b2 = what the stage provides
EvalEnv(e) ==
    /\ why' = why \cup Fails(<< <<e.s = e.b2, "C15", "stage-parameters-removed-while-the-stage-was-still-triggering">> >>)
    /\ Unch(<<lmax, skipped, setupSeen, ids, liveIds, liveH, endedIds, cleaned, succT, failT, sumTicks, lateSum, dropSum, stopSeen, limitSeen,
              evals, firstEvalT, pendingV, progS, progF, cancelT, timeoutSeen, retSeen, ret, mS, mF, mD, mSetup, mSetupRes,
              labelsBad, stageCur, stageOpen, setupCleanupSeen, rvOK>>)

\* the ids the scenario kept beyond their iterations (as a scenario collecting `t.Iteration` does) still read as they did
\* when it was handed them: a = how many do not, b2 = the first of those
IdsKept(e) ==
    /\ why' = why \cup Fails(<< <<e.a = 0, "C03", "iteration-id-kept-by-the-scenario-changed-after-its-invocation">> >>)
    /\ Unch(<<lmax, skipped, setupSeen, ids, liveIds, liveH, endedIds, cleaned, succT, failT, sumTicks, lateSum, dropSum, stopSeen, limitSeen,
              evals, firstEvalT, pendingV, progS, progF, cancelT, timeoutSeen, retSeen, ret, mS, mF, mD, mSetup, mSetupRes,
              labelsBad, stageCur, stageOpen, setupCleanupSeen, rvOK>>)

Other(e) == why' = why /\
    Unch(<<lmax, skipped, setupSeen, ids, liveIds, liveH, endedIds, cleaned, succT, failT, sumTicks, lateSum, dropSum, stopSeen, limitSeen,
           evals, firstEvalT, pendingV, progS, progF, cancelT, timeoutSeen, retSeen, ret, mS, mF, mD, mSetup, mSetupRes,
           labelsBad, stageCur, stageOpen, setupCleanupSeen, rvOK>>)

Next == /\ i < Len(T[tr].ev)
        /\ i' = i + 1 /\ UNCHANGED tr
        \* set by the one event that changes it; every other event leaves it
        /\ preCancelled' = IF T[tr].ev[i + 1].k = "cancelret" THEN (setupSeen = -1) ELSE preCancelled
        /\ ninv' = IF T[tr].ev[i + 1].k = "invocations" THEN T[tr].ev[i + 1].a ELSE ninv
        /\ stageEvals' = LET e == T[tr].ev[i + 1] IN
                         IF e.k = "stage" /\ e.b = 1 THEN 0 ELSE IF e.k = "eval" THEN stageEvals + 1 ELSE stageEvals
        /\ stageEvalT' = LET e == T[tr].ev[i + 1] IN
                         IF e.k = "stage" /\ e.b = 1 THEN -1 ELSE IF e.k = "eval" /\ stageEvalT < 0 THEN e.c ELSE stageEvalT
        /\ stageBeginT' = IF T[tr].ev[i + 1].k = "stage" /\ T[tr].ev[i + 1].b = 1 THEN T[tr].ev[i + 1].c ELSE stageBeginT
        /\ banner' = IF T[tr].ev[i + 1].k = "summary" THEN T[tr].ev[i + 1].s ELSE banner
        /\ lastCleanT' = IF T[tr].ev[i + 1].k = "cleanup" THEN T[tr].ev[i + 1].c ELSE lastCleanT
        /\ dupSeen' = (dupSeen \/ (T[tr].ev[i + 1].k = "start" /\ T[tr].ev[i + 1].a \in ids)
                              \/ (T[tr].ev[i + 1].k = "idrange" /\ T[tr].ev[i + 1].a <= lmax))
        /\ LET e == T[tr].ev[i + 1] IN
           CASE e.k = "setup" -> Setup(e)
             [] e.k = "eval" -> Eval(e)
             [] e.k = "tick" -> Tick(e)
             [] e.k = "stopflag" -> StopFlag(e)
             [] e.k = "limit" -> Limit(e)
             [] e.k = "dropev" -> DropEv(e)
             [] e.k = "start" -> Start(e)
             [] e.k = "end" -> End(e)
             [] e.k = "idrange" -> IdRange(e)
             [] e.k = "cleanup" -> Cleanup(e)
             [] e.k = "setupcleanup" -> SetupCleanup(e)
             [] e.k = "progress" -> Progress(e)
             [] e.k = "cancel" -> Cancel(e)
             [] e.k = "timeoutmsg" -> TimeoutMsg(e)
             [] e.k = "noreturn" -> NoReturn(e)
             [] e.k = "rv" -> Rendezvous(e)
             [] e.k = "idskept" -> IdsKept(e)
             [] e.k = "idle" -> Idle(e)
             [] e.k = "ret" -> Return(e)
             [] e.k = "metric" -> Metric(e)
             [] e.k = "summary" -> Summary(e)
             [] e.k = "after" -> After(e)
             [] e.k = "stage" -> Stage(e)
             [] e.k = "ueval" -> UEval(e)
             [] e.k = "evalenv" -> EvalEnv(e)
             [] OTHER -> Other(e)

Holds(p) == \A w \in why : w.p # p
OK_MACHINERY == Holds("MACHINERY")
OK_C01 == Holds("C01")
OK_C02 == Holds("C02")
OK_C03 == Holds("C03")
OK_C04 == Holds("C04")
OK_C05 == Holds("C05")
OK_C06 == Holds("C06")
OK_C07 == Holds("C07")
OK_C09 == Holds("C09")
OK_C10 == Holds("C10")
OK_C18 == Holds("C18")
OK_C15 == Holds("C15")
OK_C16 == Holds("C16")
OK_C19 == Holds("C19")
=============================================================================
