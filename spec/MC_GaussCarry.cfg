SPECIFICATION Spec
CONSTANTS Q = 4  MaxX = 9  MaxTicks = 5
INVARIANTS CarryExact NonNegative WithinOne
CHECK_DEADLOCK FALSE
