--------------------------- MODULE JobLedgerIndMut ---------------------------
(* Mutant of JobLedgerInd: a worker that finds nothing to take puts the counter back in a SECOND atomic  *)
(* step (the give-back of seeded changes C02-D / C09-E). `giving` = workers between their two steps.      *)
(* Conservation is not inductive any more (a Swap between the two steps creates a request).               *)
EXTENDS Integers

VARIABLES
    \* @type: Int;
    pending,
    \* @type: Int;
    requested,
    \* @type: Int;
    started,
    \* @type: Int;
    dropped,
    \* @type: Int;
    giving

Pos(x) == IF x > 0 THEN x ELSE 0

Init == pending = 0 /\ requested = 0 /\ started = 0 /\ dropped = 0 /\ giving = 0
Tick(n) == /\ dropped' = dropped + Pos(pending)
           /\ pending' = n /\ requested' = requested + n /\ started' = started /\ giving' = giving
TakeA == /\ pending' = pending - 1
         /\ IF pending >= 1 THEN started' = started + 1 /\ giving' = giving
                            ELSE started' = started /\ giving' = giving + 1
         /\ UNCHANGED <<requested, dropped>>
GiveBack == /\ giving > 0 /\ giving' = giving - 1 /\ pending' = pending + 1
            /\ UNCHANGED <<requested, started, dropped>>
Next == (\E n \in Nat : Tick(n)) \/ TakeA \/ GiveBack

\* with every give-back completed the ledger must balance
Conservation == (giving = 0) => requested = started + dropped + Pos(pending)
IndInv == Conservation /\ requested >= 0 /\ started >= 0 /\ dropped >= 0 /\ giving >= 0
IndInit == pending \in Int /\ requested \in Int /\ started \in Int /\ dropped \in Int /\ giving \in Int /\ IndInv
=============================================================================
