------------------------------ MODULE Measure ------------------------------
(* C17 (measurement clause): each iteration's recorded duration, in the progress statistics and  *)
(* in the exported metric, is at least the time its body took by the body's own clock, and        *)
(* excludes its cleanups and the time it waited for a worker.                                     *)
(* One observation = one single-worker run: body_us = the bodies' own elapsed times,              *)
(* rec_* = lifetime figures of the result, met_* = exported summary, extra_us = time the harness   *)
(* deliberately spent OUTSIDE the bodies (a sleeping cleanup, or queueing behind the worker).      *)
EXTENDS Integers, Sequences, Json, IOUtils, TLC
Obs == ndJsonDeserialize(IOEnv.TRACE_FILE)
VARIABLE l
Init == l \in 1..Len(Obs)
Next == UNCHANGED l

RECURSIVE SumSeq(_, _)
SumSeq(s, k) == IF k = 0 THEN 0 ELSE s[k] + SumSeq(s, k - 1)
MinOf(s) == CHOOSE x \in {s[j] : j \in 1..Len(s)} : \A j \in 1..Len(s) : x <= s[j]
MaxOf(s) == CHOOSE x \in {s[j] : j \in 1..Len(s)} : \A j \in 1..Len(s) : x >= s[j]

\* lower bounds are exact (1 us of unit truncation): recorded >= body's own elapsed time
LowerOK(r) == /\ r.rec_count = r.n /\ r.met_count = r.n /\ Len(r.body_us) = r.n
              /\ r.rec_min_us + 1 >= MinOf(r.body_us)
              /\ r.rec_max_us + 1 >= MaxOf(r.body_us)
              /\ r.rec_avg_us * r.n + r.n >= SumSeq(r.body_us, r.n) - r.n
              /\ r.met_sum_us + r.n >= SumSeq(r.body_us, r.n)
\* upper bound: the deliberate outside time (>= 200 ms) must not be included
UpperOK(r) == (r.extra_us >= 200000 /\ ~r.overshoot) =>
                  /\ r.rec_max_us <= MaxOf(r.body_us) + r.slack_us
                  /\ r.met_sum_us <= SumSeq(r.body_us, r.n) + r.slack_us * r.n
RowOK(r) == r.n > 0 /\ LowerOK(r) /\ UpperOK(r)
Inv == RowOK(Obs[l])
=============================================================================
