SPECIFICATION ImplSpec
CONSTANTS MaxN = 12  MaxRate = 9  MaxCycles = 3  Q = 16
INVARIANTS EvalOncePerCycle ImplConserved ImplEven
CHECK_DEADLOCK FALSE
