------------------------- MODULE MC_ContinuousPool -------------------------
EXTENDS ContinuousPool
P_3x4 == {[n |-> 3, m |-> 4, pre |-> FALSE]}
P_3x0 == {[n |-> 3, m |-> 0, pre |-> FALSE]}
P_pre == {[n |-> 3, m |-> 4, pre |-> TRUE], [n |-> 2, m |-> 0, pre |-> TRUE]}
\* every parameter combination the cooperative driver uses (1-3 workers, a limit of 1, 2 or 5 - without a limit the id counter is unbounded -, both starts)
P_all == [n : 1..3, m : {1, 2, 5}, pre : BOOLEAN]
=============================================================================
