INIT Init
NEXT Next
INVARIANTS OK_C19 OK_MACHINERY
CHECK_DEADLOCK FALSE
