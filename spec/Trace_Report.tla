---------------------------- MODULE Trace_Report ----------------------------
EXTENDS Report, Sequences, Json, IOUtils, TLC
Obs == ndJsonDeserialize(IOEnv.TRACE_FILE)
VARIABLE l
Init == l \in 1..Len(Obs)
Next == UNCHANGED l
Inv == IF Obs[l].kind = "summary" THEN SummaryOK(Obs[l]) ELSE ProgressOK(Obs[l])
=============================================================================
