SPECIFICATION Spec
CONSTANTS Rec = {r1, r2}  AddsPer = 1  MaxSnaps = 1
  CollectBySwap = FALSE  Locked = TRUE  StopWaits = TRUE
INVARIANTS TypeOK NeverOverCount Conserved
PROPERTIES ResultMonotone Finishes
CHECK_DEADLOCK FALSE
