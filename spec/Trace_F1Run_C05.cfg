INIT Init
NEXT Next
INVARIANTS OK_C05 OK_MACHINERY
CHECK_DEADLOCK FALSE
