------------------------- MODULE Trace_RateRunner -------------------------
(* Observer for traces of the REAL raterun.Runner (harness `c18`), stating RateRunner's properties  *)
(* over what is visible from outside: when the function is invoked and with which frequency          *)
(* argument, relative to New/Start/Restart/Stop/cancel, and whether a goroutine remains.             *)
(* {"sched":[[delay_us,freq_us],...],"ev":[{"k":..,"a":..,"c":time_us,"d":..}, ...]}                *)
EXTENDS Integers, Sequences, Json, IOUtils, TLC
T == ndJsonDeserialize(IOEnv.TRACE_FILE)
VARIABLES tr, i, newT, startT, base, rbase, stopRet, stopCalled, cancelled, inFn, cnt, exited, why,
          rpend   \* invocations since a Restart call the runner goroutine has not processed yet (-1: none pending)
vars == <<tr, i, newT, startT, base, rbase, stopRet, stopCalled, cancelled, inFn, cnt, exited, why, rpend>>
\* base = the EARLIEST instant the first schedule can have (re)started: Start, or the last Restart call
\*        (the Restart event is logged after the channel send, the goroutine restarts at or after the send
\*         began - the harness logs the time after; the previous base stays valid as a lower bound until then)

Sch == T[tr].sched
NS == Len(Sch)
SLACK == 50000
RSLACK == 25000
F(c) == [p |-> "C18", c |-> c]
Fails(cs) == {F(cs[j][2]) : j \in {k \in 1..Len(cs) : ~cs[k][1]}}

RECURSIVE StartOf(_, _)
\* earliest start of schedule k (1-based) given the base instant b of schedule 1
StartOf(k, b) == IF k = 1 THEN b ELSE StartOf(k - 1, b) + Sch[k][1]
IdxOf(f) == IF \E k \in 1..NS : Sch[k][2] = f THEN CHOOSE k \in 1..NS : Sch[k][2] = f ELSE 0

Init == /\ tr \in 1..Len(T) /\ i = 0 /\ newT = 0 /\ startT = -1 /\ base = -1 /\ rbase = -1 /\ stopRet = FALSE /\ stopCalled = FALSE
        /\ cancelled = FALSE /\ inFn = FALSE /\ cnt = [k \in 1..3 |-> 0] /\ exited = FALSE /\ rpend = -1
        /\ why = IF T[tr].err = "" THEN {} ELSE {[p |-> "MACHINERY", c |-> T[tr].err]}

Next == /\ i < Len(T[tr].ev) /\ i' = i + 1 /\ UNCHANGED tr
        \* Restart() only SENDS; the goroutine turns to it when its select picks it (hook rr.restart). While the function
        \* is executing nothing is picked, and when it returns a tick that became due meanwhile competes with the pending
        \* restart on equal terms: invocations of the old schedule are legitimate until the restart has been processed,
        \* however long the function took - but only a few of them (each needs a slow invocation AND a lost coin flip);
        \* a restart that is never processed is still caught by that bound
        /\ rpend' = LET e == T[tr].ev[i + 1] IN
                     CASE e.k = "restart" -> (IF rpend >= 0 THEN rpend ELSE 0)
                       [] e.k = "h.restart" -> -1
                       [] e.k = "fnb" /\ rpend >= 0 -> rpend + 1
                       [] OTHER -> rpend
        /\ LET e == T[tr].ev[i + 1] IN
           CASE e.k = "new" -> newT' = e.c /\ UNCHANGED <<startT, base, rbase, stopRet, stopCalled, cancelled, inFn, cnt, exited, why>>
             [] e.k = "start" ->
                  \* the first schedule starts once its start delay (counted from New) has elapsed, not before Start
                  /\ startT' = e.c
                  /\ base' = IF newT + Sch[1][1] > e.c THEN newT + Sch[1][1] ELSE e.c
                  /\ UNCHANGED <<newT, rbase, stopRet, stopCalled, cancelled, inFn, cnt, exited, why>>
             [] e.k = "restart" ->
                  \* logged BEFORE Restart() is called: from here on the goroutine may go back to the first schedule at
                  \* any moment; calls of a later schedule are then legitimate only until the restart has been processed
                  \* (RSLACK) or again after the start delays counted from the restart
                  /\ rbase' = e.c /\ cnt' = [k \in 1..3 |-> 0]
                  /\ base' = IF e.c < base THEN e.c ELSE base
                  /\ UNCHANGED <<newT, startT, stopRet, stopCalled, cancelled, inFn, exited, why>>
             [] e.k = "fnb" ->
                  LET k == IdxOf(e.a)
                      kk == IF k = 0 THEN 1 ELSE k
                      lb == IF kk = 1 THEN base ELSE IF rbase >= 0 THEN StartOf(kk, rbase) ELSE StartOf(kk, base)
                      preRestart == rbase >= 0 /\ (e.c <= rbase + RSLACK \/ (rpend >= 0 /\ rpend < 3))
                  IN
                  /\ why' = why \cup Fails(<<
                        <<startT >= 0, "function-invoked-before-start">>,
                        <<~stopRet, "function-invoked-after-stop-returned">>,
                        <<k > 0, "frequency-argument-is-not-a-configured-schedule">>,
                        <<~inFn, "function-invoked-while-already-executing">>,
                        \* not before this schedule can have started
                        <<k = 0 \/ base < 0 \/ e.c + 1 >= lb \/ preRestart, "schedule-active-before-its-start-delay">>,
                        \* a schedule's ticker is created when the schedule starts: its first tick is one period later
                        <<k = 0 \/ base < 0 \/ preRestart \/ e.c + 1 < lb \/ e.c + 1 >= lb + e.a, "function-invoked-before-the-first-tick-of-its-schedule">>,
                        \* at most once per tick of the active schedule. After a Restart the counting window starts at an
                        \* arbitrary phase of the OLD ticker: one tick that fired before the window (delivered late, or
                        \* buffered while the function was executing) may be consumed inside it - hence 2 + ... there.
                        <<k = 0 \/ base < 0 \/ e.c + 1 < lb \/ cnt[kk] + 1 <= (IF rbase >= 0 THEN 2 ELSE 1) + ((e.c + 1 - lb) \div e.a), "more-invocations-than-ticks">> >>)
                  /\ inFn' = TRUE
                  /\ cnt' = IF k > 0 /\ e.c + 1 >= lb THEN [cnt EXCEPT ![k] = @ + 1] ELSE cnt
                  /\ UNCHANGED <<newT, startT, base, rbase, stopRet, stopCalled, cancelled, exited>>
             [] e.k = "fne" -> inFn' = FALSE /\ UNCHANGED <<newT, startT, base, rbase, stopRet, stopCalled, cancelled, cnt, exited, why>>
             [] e.k = "stopcall" -> stopCalled' = TRUE /\ UNCHANGED <<newT, startT, base, rbase, stopRet, cancelled, inFn, cnt, exited, why>>
             [] e.k = "stopret" ->
                  /\ why' = why \cup Fails(<< <<~inFn, "function-executing-when-stop-returned">> >>)
                  /\ stopRet' = TRUE /\ UNCHANGED <<newT, startT, base, rbase, stopCalled, cancelled, inFn, cnt, exited>>
             [] e.k = "stophang" -> why' = why \cup {F("stop-did-not-return")}
                                     /\ UNCHANGED <<newT, startT, base, rbase, stopRet, stopCalled, cancelled, inFn, cnt, exited>>
             [] e.k = "cancel" -> cancelled' = TRUE /\ UNCHANGED <<newT, startT, base, rbase, stopRet, stopCalled, inFn, cnt, exited, why>>
             [] e.k = "exit" -> exited' = TRUE /\ UNCHANGED <<newT, startT, base, rbase, stopRet, stopCalled, cancelled, inFn, cnt, why>>
             [] e.k = "after" ->
                  /\ why' = why \cup Fails(<<
                        <<~(stopRet \/ cancelled) \/ e.d = 0, "goroutine-remains-after-stop-or-cancel">>,
                        <<~(stopRet \/ cancelled) \/ exited, "runner-goroutine-did-not-end">> >>)
                  /\ UNCHANGED <<newT, startT, base, rbase, stopRet, stopCalled, cancelled, inFn, cnt, exited>>
             [] OTHER -> UNCHANGED <<newT, startT, base, rbase, stopRet, stopCalled, cancelled, inFn, cnt, exited, why>>

OK_C18 == \A w \in why : w.p # "C18"
OK_MACHINERY == \A w \in why : w.p # "MACHINERY"
=============================================================================
