INIT Init
NEXT Next
INVARIANTS OK_C10 OK_MACHINERY
CHECK_DEADLOCK FALSE
