---------------------------- MODULE AggregateInd ----------------------------
(* The arithmetic core of C17's aggregation clause, unbounded (Apalache): count / sum / minimum / maximum *)
(* of any sequence of non-negative durations, with 0 as the "no minimum yet" sentinel                    *)
(* (internal/progress/average.go).  For every reachable state with count > 0:                            *)
(*     min * count <= sum <= max * count      (hence  min <= integer mean <= max)                         *)
(* and the count never decreases.                                                                         *)
EXTENDS Integers
VARIABLES
    \* @type: Int;
    count,
    \* @type: Int;
    sum,
    \* @type: Int;
    mn,
    \* @type: Int;
    mx
Init == count = 0 /\ sum = 0 /\ mn = 0 /\ mx = 0
Add(d) == /\ count' = count + 1 /\ sum' = sum + d
          /\ mn' = IF count = 0 \/ d < mn THEN d ELSE mn
          /\ mx' = IF d > mx THEN d ELSE mx
Next == \E d \in Nat : Add(d)
IndInv == /\ count >= 0 /\ sum >= 0 /\ mn >= 0 /\ mx >= mn
          /\ (count = 0) => (sum = 0 /\ mn = 0 /\ mx = 0)
          /\ mn * count <= sum /\ sum <= mx * count
IndInit == count \in Int /\ sum \in Int /\ mn \in Int /\ mx \in Int /\ IndInv
=============================================================================
