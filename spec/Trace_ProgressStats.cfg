INIT Init
NEXT Next
INVARIANTS Accepted
CHECK_DEADLOCK FALSE
