SPECIFICATION Spec
CONSTANTS NSched = 2  MaxTicks = 3  StopWaits = TRUE
INVARIANTS OnlyAfterStart QuiescentAfterStop IdxInRange
PROPERTIES GoroutineEnds StopReturns
CHECK_DEADLOCK FALSE
