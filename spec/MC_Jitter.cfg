SPECIFICATION Spec
CONSTANTS JSet = {0, 2000, 5000, 9900}  MaxRate = 3  MaxSteps = 5
INVARIANTS CarryExact BalanceBounded ZeroIsIdentity
CHECK_DEADLOCK FALSE
