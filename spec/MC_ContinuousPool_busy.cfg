SPECIFICATION Spec
CONSTANTS ParamSet <- P_3x0  AllowCancel = FALSE  BodiesEnd = FALSE  SyncFlag = TRUE
INVARIANTS Gapless Unique
PROPERTIES AllBusy
CHECK_DEADLOCK FALSE
