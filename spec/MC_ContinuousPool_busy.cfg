SPECIFICATION Spec
CONSTANTS Workers = {w1, w2, w3}  MaxIter = 0  AllowCancel = FALSE  BodiesEnd = FALSE  PreCancelled = FALSE  SyncFlag = TRUE
INVARIANTS Gapless Unique
PROPERTIES AllBusy
CHECK_DEADLOCK FALSE
