SPECIFICATION Spec
CONSTANTS Workers = {w1, w2, w3}  TickSizes = {3}  MaxTicks = 1  MaxIter = 0  AllowCancel = FALSE  BodiesEnd = FALSE  LimitDrains = TRUE
INVARIANTS TypeOK NoOverCount MutexOK
PROPERTIES AllWorkersBusy
CHECK_DEADLOCK FALSE
