----------------------------- MODULE RateGrammar -----------------------------
(* C14 — what rate strings mean, and what an accepted input must provide.                          *)
(* Strings are sequences of one-character strings (TLC strings are atomic).                        *)
(* Well-formed rate spellings:   digits  |  digits "/" unit  |  digits "/" number unit             *)
(*   unit in {ns, us, ms, s, m, h};  number = digits | digits "." digits | "." digits              *)
(* (the single-term subset of Go's duration syntax - what "N per that duration" spells).            *)
(*   N            means N per second                                                                *)
(*   N/unit       means N per one unit                                                              *)
(*   N/K unit     means N per K units         (3/.5s = 3 per 500 ms)                                *)
(* The meaning is a pair <<rate, interval in nanoseconds>>, computed in exact integer arithmetic;   *)
(* it is only claimed when it fits TLC's integers (interval < 2^31 ns ~ 2.1 s, or a whole number of *)
(* milliseconds reported separately by the observer).                                               *)
EXTENDS Integers, Sequences

Digit == {"0", "1", "2", "3", "4", "5", "6", "7", "8", "9"}
DigitVal(c) == CASE c = "0" -> 0 [] c = "1" -> 1 [] c = "2" -> 2 [] c = "3" -> 3 [] c = "4" -> 4
                 [] c = "5" -> 5 [] c = "6" -> 6 [] c = "7" -> 7 [] c = "8" -> 8 [] c = "9" -> 9
AllDigits(s) == Len(s) > 0 /\ \A j \in 1..Len(s) : s[j] \in Digit
RECURSIVE Num(_)
Num(s) == IF Len(s) = 0 THEN 0 ELSE Num(SubSeq(s, 1, Len(s) - 1)) * 10 + DigitVal(s[Len(s)])
RECURSIVE Pow10(_)
Pow10(k) == IF k = 0 THEN 1 ELSE 10 * Pow10(k - 1)

\* unit suffixes and their length in microseconds * 1000 would overflow: keep nanoseconds for small, flag large
UnitNs(u) == CASE u = <<"n", "s">> -> 1
               [] u = <<"u", "s">> -> 1000
               [] u = <<"m", "s">> -> 1000000
               [] u = <<"s">> -> 1000000000
               [] OTHER -> 0
\* minutes and hours do not fit 32-bit nanoseconds: their meaning is stated in milliseconds
UnitMs(u) == CASE u = <<"m", "s">> -> 1
               [] u = <<"s">> -> 1000
               [] u = <<"m">> -> 60000
               [] u = <<"h">> -> 3600000
               [] OTHER -> 0
IsUnit(u) == u \in {<<"n", "s">>, <<"u", "s">>, <<"m", "s">>, <<"s">>, <<"m">>, <<"h">>}

Find(s, c) == IF \E j \in 1..Len(s) : s[j] = c THEN CHOOSE j \in 1..Len(s) : s[j] = c /\ \A k \in 1..(j - 1) : s[k] # c ELSE 0
\* longest prefix of s made of digits and at most one "."
RECURSIVE NumLen(_, _, _)
NumLen(s, j, dots) == IF j > Len(s) THEN j - 1
                      ELSE IF s[j] \in Digit THEN NumLen(s, j + 1, dots)
                      ELSE IF s[j] = "." /\ dots = 0 THEN NumLen(s, j + 1, 1)
                      ELSE j - 1
\* a duration "number unit": returns [ok, int (integer part digits), frac (fraction digits), unit]
Dur(s) == LET n == NumLen(s, 1, 0)
              numPart == SubSeq(s, 1, n)
              unit == SubSeq(s, n + 1, Len(s))
              d == Find(numPart, ".")
              ip == IF d = 0 THEN numPart ELSE SubSeq(numPart, 1, d - 1)
              fp == IF d = 0 THEN <<>> ELSE SubSeq(numPart, d + 1, Len(numPart))
          IN [ok |-> IsUnit(unit) /\ (Len(ip) + Len(fp) > 0) /\ (\A j \in 1..Len(ip) : ip[j] \in Digit)
                        /\ (\A j \in 1..Len(fp) : fp[j] \in Digit) /\ Len(ip) <= 6 /\ Len(fp) <= 6,
              ip |-> ip, fp |-> fp, unit |-> unit]

\* a well-formed rate spelling
WellFormed(s) ==
    LET slash == Find(s, "/") IN
    IF slash = 0 THEN AllDigits(s) /\ Len(s) <= 7
    ELSE LET head == SubSeq(s, 1, slash - 1)
             tail == SubSeq(s, slash + 1, Len(s))
         IN AllDigits(head) /\ Len(head) <= 7 /\ (IsUnit(tail) \/ Dur(tail).ok)

\* meaning: [rate, ms, ns] with interval = ms milliseconds + ns nanoseconds, ns < 10^6
\* (K.F unit) = (K * 10^f + F) * unitNs / 10^f
Meaning(s) ==
    LET slash == Find(s, "/") IN
    IF slash = 0 THEN [rate |-> Num(s), ms |-> 1000, ns |-> 0]
    ELSE LET head == SubSeq(s, 1, slash - 1)
             tail == SubSeq(s, slash + 1, Len(s))
         IN IF IsUnit(tail)
            THEN [rate |-> Num(head), ms |-> UnitMs(tail), ns |-> IF UnitMs(tail) = 0 THEN UnitNs(tail) ELSE 0]
            ELSE LET d == Dur(tail)
                     f == Len(d.fp)
                     scaled == Num(d.ip) * Pow10(f) + Num(d.fp)           \* value * 10^f
                 IN IF UnitMs(d.unit) > 0
                    THEN \* total ns = scaled * unitMs * 10^6 / 10^f ; split without overflow for f <= 6
                         LET msTimesScale == scaled * UnitMs(d.unit)        \* ms * 10^f
                             ms == msTimesScale \div Pow10(f)
                             remScaled == msTimesScale % Pow10(f)           \* (ms fraction) * 10^f
                             ns == (remScaled * 1000000) \div Pow10(f)
                         IN [rate |-> Num(head), ms |-> ms, ns |-> ns]
                    ELSE LET tot == (scaled * UnitNs(d.unit)) \div Pow10(f)
                         IN [rate |-> Num(head), ms |-> tot \div 1000000, ns |-> tot % 1000000]

(* ---------------------------------------------------------------- observations *)
\* kind "rate": chars, accepted, panicked, rate, ms, ns (interval the parser returned)
RateRowOK(r) ==
    /\ r.panicked = FALSE
    /\ r.accepted => (r.ms > 0 \/ r.ns > 0)                      \* a positive tick interval
    /\ r.accepted => r.rate >= 0
    /\ (r.accepted /\ WellFormed(r.chars) /\ r.fits) =>
          LET m == Meaning(r.chars) IN r.rate = m.rate /\ r.ms = m.ms /\ r.ns = m.ns
\* kind "ramp": the two rate spellings of a ramp (start_chars, end_chars), whether the ramp was accepted, the tick
\* interval it reports (ms, ns) and the values it yields at its start (first) and at its end (last).
\* An accepted ramp means what its two rates spell: both per the SAME duration - which is its tick interval -, going
\* from the start count to the end count.
RampRowOK(r) ==
    /\ r.panicked = FALSE
    /\ (r.accepted /\ WellFormed(r.start_chars) /\ WellFormed(r.end_chars) /\ r.fits) =>
          LET a == Meaning(r.start_chars)  b == Meaning(r.end_chars)
          IN /\ a.ms = b.ms /\ a.ns = b.ns
             /\ r.ms = a.ms /\ r.ns = a.ns
             /\ r.first = a.rate /\ r.last = b.rate
\* kind "trigger": any front end (stages string, constructor arguments, CLI flags, YAML file) ->
\* rejected with an error, or a trigger that runs: it did not crash, ticks at a positive interval,
\* has a usable rate function and at least one worker
TriggerRowOK(r) ==
    /\ r.panicked = FALSE                 \* malformed input never crashes the process
    /\ r.accepted => (r.interval_ok /\ r.workers >= 1 /\ r.ran_ok /\ r.rate_ok)
    /\ (r.accepted = FALSE) => r.setup_ran = FALSE        \* rejected BEFORE setup runs
=============================================================================
