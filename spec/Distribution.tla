--------------------------- MODULE Distribution ---------------------------
(* C12 — spreading a rate over 100 ms sub-ticks (internal/trigger/api/iteration_distribution.go).*)
(* A cycle is N = floor(interval / 100 ms) consecutive calls of the distributed rate function.   *)
(* At the first call of a cycle the underlying rate function is evaluated ONCE (cycleRate); the   *)
(* N values handed out are non-negative and sum exactly to cycleRate.  `regular` is additionally  *)
(* even (values within a cycle differ by at most 1); `random` clamps every draw to what is left   *)
(* and flushes the remainder on the last sub-tick.  interval <= 100 ms and `none` are the identity *)
(* (modelled as N = 1: one evaluation per call, value passed through).                             *)
EXTENDS Integers, Sequences

CONSTANTS MaxN,        \* largest cycle length explored
          MaxRate,     \* largest underlying rate value explored
          MaxCycles,   \* number of cycles explored
          Q            \* fixed-point scale of the implementation's accumulator (10^7 in the code)

VARIABLES kind,        \* "regular" | "random" | "identity"
          n,           \* cycle length N
          rem,         \* sub-ticks remaining in the current cycle (0 = a new cycle starts at next call)
          cycleRate,   \* value the underlying rate produced for this cycle
          emitted,     \* sum handed out so far in this cycle
          lo, hi,      \* smallest / largest value handed out in this cycle (lo = -1: none yet)
          evals,       \* number of evaluations of the underlying rate so far
          cycles,      \* number of cycles started so far
          acc          \* implementation refinement only: fixed-point accumulator in units of 1/Q

vars == <<kind, n, rem, cycleRate, emitted, lo, hi, evals, cycles, acc>>

Min(a, b) == IF a < b THEN a ELSE b
Max(a, b) == IF a > b THEN a ELSE b

Init == /\ kind \in {"regular", "random", "identity"}
        /\ n \in 1..MaxN
        /\ (kind = "identity") => (n = 1)
        /\ rem = 0 /\ cycleRate = 0 /\ emitted = 0 /\ lo = -1 /\ hi = 0
        /\ evals = 0 /\ cycles = 0 /\ acc = 0

(* The relation every sub-tick must satisfy.  A *run* of `rep` equal values `out` inside one cycle  *)
(* is judged at once (rep = 1 is a single sub-tick); the trace specification reuses this operator   *)
(* for run-length-encoded logs of very long cycles.                                                  *)
\* A rate function may return a negative value for a cycle (a staged profile dipping below zero): nothing can be
\* handed out then - every sub-tick of that cycle is 0 - and nothing of it is carried into later cycles (each cycle
\* is judged against its own rate only). The identity cases pass the value through unchanged.
OutAllowed(k, rate, emittedBefore, remBefore, loBefore, hiBefore, out, rep) ==
    /\ rep >= 1 /\ rep <= remBefore
    /\ (k = "identity") => (out = rate)
    /\ (k # "identity") =>
          /\ out >= 0
          /\ IF rate < 0 THEN out = 0
             ELSE /\ emittedBefore + out * rep <= rate
                  /\ (remBefore = rep) => (emittedBefore + out * rep = rate)    \* flushed on the last sub-tick
                  /\ (k = "regular") =>
                        LET l2 == IF loBefore = -1 THEN out ELSE Min(loBefore, out)
                            h2 == Max(hiBefore, out)
                        IN h2 - l2 <= 1                                        \* even

\* State change of `rep` consecutive calls handing out `out` each; newRate is the value of the
\* underlying rate function if it gets evaluated by the first of these calls.
Apply(newRate, out, rep) ==
    LET starting == rem = 0
        r   == IF starting THEN newRate ELSE cycleRate
        em  == IF starting THEN 0 ELSE emitted
        rm  == IF starting THEN n ELSE rem
        l0  == IF starting THEN -1 ELSE lo
        h0  == IF starting THEN 0 ELSE hi
    IN /\ cycleRate' = r
       /\ emitted' = em + out * rep
       /\ rem' = rm - rep
       /\ lo' = IF l0 = -1 THEN out ELSE Min(l0, out)
       /\ hi' = Max(h0, out)
       /\ evals' = IF starting THEN evals + 1 ELSE evals
       /\ cycles' = IF starting THEN cycles + 1 ELSE cycles
       /\ UNCHANGED <<kind, n>>

Allowed(newRate, out, rep) ==
    LET starting == rem = 0
    IN OutAllowed(kind, IF starting THEN newRate ELSE cycleRate, IF starting THEN 0 ELSE emitted,
                  IF starting THEN n ELSE rem, IF starting THEN -1 ELSE lo, IF starting THEN 0 ELSE hi,
                  out, rep)

SubTick(newRate, out) == Allowed(newRate, out, 1) /\ Apply(newRate, out, 1)

\* the property as an unconstrained (nondeterministic) design
Next == /\ (rem = 0) => (cycles < MaxCycles)
        /\ \E newRate \in 0..MaxRate, out \in 0..MaxRate : SubTick(newRate, out) /\ acc' = acc
Spec == Init /\ [][Next]_vars

-----------------------------------------------------------------------------
(* Properties (C12) *)
EvalOncePerCycle == evals = cycles
\* what a finished cycle must have handed out: its rate - nothing when the rate was negative (see OutAllowed)
Due(r) == IF kind # "identity" /\ r < 0 THEN 0 ELSE r
CycleConserved   == (rem = 0 /\ cycles > 0) => emitted = Due(cycleRate)
NeverOver        == emitted <= Due(cycleRate)
NonNegative      == lo >= -1 /\ hi >= 0
RegularEven      == (kind = "regular" /\ lo # -1) => hi - lo <= 1
IdentityPass     == (kind = "identity" /\ cycles > 0) => (emitted = cycleRate /\ rem = 0)

-----------------------------------------------------------------------------
(* Refinement 1: the Bresenham distributor  out_k = floor(k r / N) - floor((k-1) r / N).          *)
BresenhamNext ==
    /\ kind = "regular"
    /\ (rem = 0) => (cycles < MaxCycles)
    /\ \E newRate \in 0..MaxRate :
         LET starting == rem = 0
             r == IF starting THEN newRate ELSE cycleRate
             k == IF starting THEN 1 ELSE n - rem + 1
             out == (k * r) \div n - ((k - 1) * r) \div n
         IN SubTick(newRate, out) /\ acc' = acc
Done == rem = 0 /\ cycles = MaxCycles /\ UNCHANGED vars
\* with deadlock checking ON this also shows that Bresenham's value is always allowed by SubTick
BresenhamSpec == (Init /\ kind = "regular") /\ [][BresenhamNext \/ Done]_vars

(* Refinement 2: the implementation's algorithm in exact fixed point (units of 1/Q):               *)
(*   acc += rate/N ; acc = ceil(acc * Q) / Q ; out = floor(acc) ; acc -= out                        *)
(* i.e. acc_u += ceil(rate * Q / N); out = acc_u div Q; acc_u = acc_u mod Q.                        *)
CeilDiv(a, b) == (a + b - 1) \div b
ImplOut(r, a) == (a + CeilDiv(r * Q, n)) \div Q
ImplAcc(r, a) == (a + CeilDiv(r * Q, n)) % Q
ImplNext ==
    /\ kind = "regular"
    /\ (rem = 0) => (cycles < MaxCycles)
    /\ \E newRate \in 0..MaxRate :
         LET starting == rem = 0
             r == IF starting THEN newRate ELSE cycleRate
             a == IF starting THEN 0 ELSE acc
         IN /\ cycleRate' = r
            /\ emitted' = (IF starting THEN 0 ELSE emitted) + ImplOut(r, a)
            /\ rem' = (IF starting THEN n ELSE rem) - 1
            /\ lo' = IF starting \/ lo = -1 THEN ImplOut(r, a) ELSE Min(lo, ImplOut(r, a))
            /\ hi' = IF starting THEN ImplOut(r, a) ELSE Max(hi, ImplOut(r, a))
            /\ evals' = IF starting THEN evals + 1 ELSE evals
            /\ cycles' = IF starting THEN cycles + 1 ELSE cycles
            /\ acc' = ImplAcc(r, a)
            /\ UNCHANGED <<kind, n>>
ImplSpec == Init /\ [][ImplNext]_vars
\* The implementation's accumulator loses nothing as long as N < Q (N * ceil(rQ/N) < (r+1) Q).
ImplConserved == (n < Q /\ rem = 0 /\ cycles > 0) => emitted = cycleRate
ImplEven      == (n < Q /\ lo # -1) => hi - lo <= 1
=============================================================================
