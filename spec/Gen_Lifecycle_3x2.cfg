SPECIFICATION Spec
CONSTANTS
  NComp = 3
  NIter = 2
  SetupProgs <- TinySetup
  BodyProgs <- TinyBody
  CleanupProgs <- TinyCleanup
INVARIANTS SetupOnceFirst NoIterationAfterFailedSetup IterCleanupsLIFOOnce SetupCleanupsLast TeardownFailureFailsRun Classified ComponentsInOrder Emit
CHECK_DEADLOCK FALSE
