INIT Init
NEXT Next
CONSTANTS MaxWorkers = 3  MaxIterC = 1
INVARIANTS Mark StuckMark NoOverCount MutexOK
CHECK_DEADLOCK FALSE
