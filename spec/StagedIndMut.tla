---------------------------- MODULE StagedIndMut ----------------------------
(* Unbounded version of Staged!ImplAlwaysAllowed for ONE stage (the cursor logic is finite-state and  *)
(* left to TLC): for every start target S, end target E, duration D > 0 and offsets o <= o2 < D in   *)
(* Nat, the truncating interpolation is never outside the two targets, within 1 of the exact linear  *)
(* value, and monotone in the direction of the stage.  Checked by Apalache over the arbitrary         *)
(* initial state (nonlinear integer arithmetic, Z3).                                                  *)
EXTENDS Integers
VARIABLES
    \* @type: Int;
    S,
    \* @type: Int;
    E,
    \* @type: Int;
    D,
    \* @type: Int;
    o,
    \* @type: Int;
    o2

Trunc(a, b) == IF a >= 0 THEN a \div b ELSE -((-a) \div b)
Impl(off) == S + Trunc((E - S) * (off + 1), D)
Min(a, b) == IF a < b THEN a ELSE b
Max(a, b) == IF a > b THEN a ELSE b

Init == S \in Nat /\ E \in Nat /\ D \in Nat /\ D > 0 /\ o \in Nat /\ o < D /\ o2 \in Nat /\ o2 < D /\ o <= o2
Next == UNCHANGED <<S, E, D, o, o2>>

InStageOK(off, r) ==
    /\ Min(S, E) <= r /\ r <= Max(S, E)
    /\ r * D - (S * D + (E - S) * off) <= D
    /\ (S * D + (E - S) * off) - r * D <= D
Theorems == /\ InStageOK(o, Impl(o))
            /\ (E >= S) => Impl(o) <= Impl(o2)
            /\ (E <= S) => Impl(o) >= Impl(o2)
=============================================================================
