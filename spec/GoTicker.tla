------------------------------ MODULE GoTicker ------------------------------
(* C09 — the rate-trigger loop of internal/trigger/api/iteration_worker.go NewIterationWorker with  *)
(* time.Ticker as the code uses it:                                                                  *)
(*   evaluate the rate once; start the pool; publish that value; create the ticker; then for every  *)
(*   tick RECEIVED: evaluate, publish.  A ticker fires every `Period` time units after its creation  *)
(*   into a channel of capacity 1; a fire that finds the channel full is lost (no catch-up).         *)
(* Time advances in unit steps; the loop may be arbitrarily slow (it only ever consumes one buffered *)
(* tick at a time).                                                                                   *)
EXTENDS Integers

CONSTANTS Period, Horizon, Values

VARIABLES now, pc, created, nextFire, buffered, evals, firstEvalT, lastVal, published, pubOK
vars == <<now, pc, created, nextFire, buffered, evals, firstEvalT, lastVal, published, pubOK>>

Init == /\ now = 0 /\ pc = "eval0" /\ created = FALSE /\ nextFire = 0 /\ buffered = 0
        /\ evals = 0 /\ firstEvalT = 0 /\ lastVal = -1 /\ published = 0 /\ pubOK = TRUE

\* time passes; a due ticker fires first
Advance == /\ now < Horizon /\ (created => nextFire > now) /\ now' = now + 1
           /\ UNCHANGED <<pc, created, nextFire, buffered, evals, firstEvalT, lastVal, published, pubOK>>
Fire == /\ created /\ nextFire <= now
        /\ buffered' = 1                               \* capacity 1: a second fire is dropped
        /\ nextFire' = nextFire + Period
        /\ UNCHANGED <<now, pc, created, evals, firstEvalT, lastVal, published, pubOK>>
\* startRate := rate(time.Now())
Eval0 == /\ pc = "eval0" /\ \E v \in Values : lastVal' = v
         /\ evals' = 1 /\ firstEvalT' = now /\ pc' = "pub0"
         /\ UNCHANGED <<now, created, nextFire, buffered, published, pubOK>>
\* pool.Start ; pool.Trigger(workerCtx, startRate)    (may take any amount of time: Advance interleaves)
Pub0 == /\ pc = "pub0" /\ published' = published + 1 /\ pubOK' = (pubOK /\ lastVal >= 0) /\ pc' = "mkticker"
        /\ UNCHANGED <<now, created, nextFire, buffered, evals, firstEvalT, lastVal>>
MkTicker == /\ pc = "mkticker" /\ created' = TRUE /\ nextFire' = now + Period /\ pc' = "wait"
            /\ UNCHANGED <<now, buffered, evals, firstEvalT, lastVal, published, pubOK>>
\* case start := <-iterationTicker.C: iterationRate := rate(start)
Recv == /\ pc = "wait" /\ buffered = 1 /\ buffered' = 0
        /\ \E v \in Values : lastVal' = v
        /\ evals' = evals + 1 /\ pc' = "pub"
        /\ UNCHANGED <<now, created, nextFire, firstEvalT, published, pubOK>>
\* pool.Trigger(workerCtx, iterationRate): the value published is the value just evaluated, unchanged
Pub == /\ pc = "pub" /\ published' = published + 1 /\ pc' = "wait"
       /\ UNCHANGED <<now, created, nextFire, buffered, evals, firstEvalT, lastVal, pubOK>>

Next == Advance \/ Fire \/ Eval0 \/ Pub0 \/ MkTicker \/ Recv \/ Pub
Spec == Init /\ [][Next]_vars

(* by elapsed time e since the first evaluation at most 1 + floor(e / interval) evaluations *)
Cadence == evals > 0 => evals <= 1 + ((now - firstEvalT) \div Period)
EveryEvalPublished == published <= evals /\ evals <= published + 1
=============================================================================
