----------------------------- MODULE GaussCarry -----------------------------
(* C11 — the part of the gaussian calculator that is a state machine                               *)
(* (internal/trigger/gaussian/gaussian_rate.go Calculator.For):                                     *)
(*   ideal (fractional) rate x for this tick, in units of 1/Q;                                       *)
(*   out = floor(x + rem) ; rem' = frac(x + rem)        -- nothing is lost, only deferred            *)
(* and the per-window relations that the outputs must satisfy.                                       *)
EXTENDS Integers, Sequences

CONSTANTS Q, MaxX, MaxTicks
VARIABLES rem, sumX, sumOut, ticks, lastOut
vars == <<rem, sumX, sumOut, ticks, lastOut>>

Init == rem = 0 /\ sumX = 0 /\ sumOut = 0 /\ ticks = 0 /\ lastOut = 0
Tick(x) == /\ lastOut' = (x + rem) \div Q
           /\ rem' = (x + rem) % Q
           /\ sumX' = sumX + x /\ sumOut' = sumOut + (x + rem) \div Q /\ ticks' = ticks + 1
Next == ticks < MaxTicks /\ \E x \in 0..MaxX : Tick(x)
Spec == Init /\ [][Next]_vars

CarryExact == Q * sumOut + rem = sumX          \* fractional rates are carried, never lost
NonNegative == lastOut >= 0 /\ rem >= 0 /\ rem < Q
WithinOne == Q * sumOut <= sumX /\ sumX < Q * (sumOut + 1)

-----------------------------------------------------------------------------
(* Relations for one repeat window of the REAL calculator (trace validation).                       *)
(* V = configured volume, W = sum of the (scaled) weights, n = number of weights (1, W = wk when     *)
(* none), wk = this window's scaled weight, S = sum of the window's outputs, tol = discretisation    *)
(* tolerance of the tick frequency (computed from the inputs by the observer, see DESIGN).           *)
VolumeOK(V, W, n, wk, S, tol) ==
    /\ S * W - V * wk * n <= tol * W
    /\ V * wk * n - S * W <= tol * W
WindowOK(w, V, W, n) ==
    /\ w.minv >= 0                                 \* requests are never negative
    /\ w.maxv <= w.peakv + 1                       \* no tick requests more than one above the tick nearest the peak
    /\ VolumeOK(V, W, n, w.wk, w.S, w.tol)
=============================================================================
