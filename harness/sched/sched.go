// Package sched is a cooperative scheduler for the REAL f1 goroutines. With the `verif` build tag
// f1 calls verifhook.Yield at its yield points; the function installed here parks the calling
// goroutine there until the scheduler releases it. Between two scheduler decisions exactly one
// instrumented goroutine runs, from one yield point to its next stable state (next yield point,
// a notified park, exit, or a runtime block such as a mutex that the goroutine dump confirms), so
// the logged order IS the execution order. Used to replay schedules chosen by TLC / enumerated
// exhaustively, and to record schedule traces that TLC validates.
package sched

import (
	"bytes"
	"fmt"
	"regexp"
	"runtime"
	"strconv"
	"sync"
	"time"

	"github.com/form3tech-oss/f1/v2/internal/verifhook"
)

type State int

const (
	Running State = iota
	AtYield
	Parked  // announced by a non-blocking hook (e.g. about to Cond.Wait); woken by someone else
	Blocked // blocked in the runtime (mutex, channel, ...), confirmed by the goroutine dump
	Done
)

func (s State) String() string {
	return [...]string{"running", "yield", "parked", "blocked", "done"}[s]
}

type Proc struct {
	Name   string
	Goid   int64
	State  State
	Point  string // yield point the goroutine is at (AtYield/Parked)
	N      int64  // scalar carried by the hook
	Who    any
	resume chan struct{}
	steps  int
	Why    string // last confirmed runtime block (status + stack)
}

// Event is one scheduler step as logged.
type Event struct {
	Proc  string `json:"p"`
	From  string `json:"from"`  // point released
	To    string `json:"to"`    // point reached ("" when not at a yield)
	State string `json:"state"` // state reached
	N     int64  `json:"n"`
}

type Sched struct {
	// WatchForeign: the system under test starts goroutines that reach their first yield point only later
	// (the trigger pool's stopper, woken by a cancellation); quiescence then also requires that no goroutine
	// executing f1 code that is still unknown to the scheduler is runnable.
	WatchForeign bool
	mu           sync.Mutex
	cond         *sync.Cond
	procs        map[int64]*Proc
	byName       map[string]*Proc
	order        []*Proc
	Namer        func(point string, who any, seq int) string // names goroutines first seen at a hook
	NonBlocking  func(point string) (State, bool)            // points that only announce a state change (Running = just log)
	OnPoint      func(proc string, point string, n int64)    // called (under the scheduler mutex) at every hook arrival
	Log          []Event
	seq          map[string]int
	free         bool // pass-through mode (no gating)
	Timeout      time.Duration
}

func New() *Sched {
	s := &Sched{procs: map[int64]*Proc{}, byName: map[string]*Proc{}, seq: map[string]int{}, Timeout: 10 * time.Second}
	s.cond = sync.NewCond(&s.mu)
	return s
}

var goidRe = regexp.MustCompile(`^goroutine (\d+) \[`)

func goid() int64 {
	var buf [64]byte
	n := runtime.Stack(buf[:], false)
	m := goidRe.FindSubmatch(buf[:n])
	if m == nil {
		return -1
	}
	id, _ := strconv.ParseInt(string(m[1]), 10, 64)
	return id
}

// Install makes this scheduler the active hook function.
func (s *Sched) Install() { verifhook.Install(s.hook) }

// Uninstall removes the hook and releases every parked goroutine.
func (s *Sched) Uninstall() {
	verifhook.Install(nil)
	s.mu.Lock()
	s.free = true
	for _, p := range s.order {
		if p.State == AtYield {
			p.State = Running
			select {
			case p.resume <- struct{}{}:
			default:
			}
		}
	}
	s.mu.Unlock()
}

// Register names the calling goroutine (for goroutines the harness spawns itself).
func (s *Sched) Register(name string) *Proc {
	s.mu.Lock()
	defer s.mu.Unlock()
	return s.register(goid(), name)
}

func (s *Sched) register(id int64, name string) *Proc {
	p := &Proc{Name: name, Goid: id, State: Running, resume: make(chan struct{}, 1)}
	s.procs[id] = p
	s.byName[name] = p
	s.order = append(s.order, p)
	return p
}

// Exit marks the calling harness goroutine as finished.
func (s *Sched) Exit() {
	s.mu.Lock()
	if p, ok := s.procs[goid()]; ok {
		p.State = Done
		p.Point = ""
		s.cond.Broadcast()
	}
	s.mu.Unlock()
}

// Pause is a yield point for harness code (same semantics as a hook in f1).
func (s *Sched) Pause(point string, n int64) { s.hook(point, nil, n) }

func (s *Sched) hook(point string, who any, n int64) {
	id := goid()
	s.mu.Lock()
	if s.free {
		s.mu.Unlock()
		return
	}
	p, ok := s.procs[id]
	if !ok {
		name := ""
		if s.Namer != nil {
			s.seq[point]++
			name = s.Namer(point, who, s.seq[point])
		}
		if name == "" {
			// a goroutine we do not schedule (not part of the experiment): let it through
			s.mu.Unlock()
			return
		}
		p = s.register(id, name)
	}
	if s.OnPoint != nil {
		s.OnPoint(p.Name, point, n)
	}
	if s.NonBlocking != nil {
		if st, nb := s.NonBlocking(point); nb {
			if st != Running {
				p.Point, p.N, p.Who = point, n, who
				p.State = st
			}
			s.cond.Broadcast()
			s.mu.Unlock()
			return
		}
	}
	p.Point, p.N, p.Who = point, n, who
	p.State = AtYield
	s.cond.Broadcast()
	s.mu.Unlock()
	<-p.resume
}

func (s *Sched) Proc(name string) *Proc {
	s.mu.Lock()
	defer s.mu.Unlock()
	return s.byName[name]
}

// Procs returns a snapshot of all processes in first-seen order.
func (s *Sched) Procs() []Proc {
	s.mu.Lock()
	defer s.mu.Unlock()
	out := make([]Proc, len(s.order))
	for i, p := range s.order {
		out[i] = *p
	}
	return out
}

var stackHdr = regexp.MustCompile(`^goroutine (\d+) \[([^\],]+)`)

// blockedStatus reports goroutine id -> wait reason for goroutines blocked in the runtime OUTSIDE
// this package (a goroutine waiting for the scheduler's own mutex is about to change state and
// counts as running).
// f1Frame marks a goroutine that is executing code of the system under test (not of this harness)
var f1Frames = [][]byte{[]byte("form3tech-oss/f1/v2/internal/"), []byte("form3tech-oss/f1/v2/pkg/")}

func blockedStatus() (map[int64]string, map[int64]bool, map[int64]bool) {
	buf := make([]byte, 1<<20)
	for {
		n := runtime.Stack(buf, true)
		if n < len(buf) {
			buf = buf[:n]
			break
		}
		buf = make([]byte, 2*len(buf))
	}
	out := map[int64]string{}
	alive := map[int64]bool{}
	moving := map[int64]bool{} // not blocked and inside f1 code
	for _, g := range bytes.Split(buf, []byte("\n\n")) {
		m := stackHdr.FindSubmatch(g)
		if m == nil {
			continue
		}
		id, _ := strconv.ParseInt(string(m[1]), 10, 64)
		alive[id] = true
		st := string(m[2])
		switch st {
		case "chan receive", "chan send", "select", "select (no cases)", "sync.Mutex.Lock", "sync.RWMutex.Lock",
			"sync.RWMutex.RLock", "sync.Cond.Wait", "sync.WaitGroup.Wait", "sleep", "IO wait", "semacquire":
			// a real wait - unless it is a wait inside the scheduler itself (its mutex / the resume channel
			// of a yield), or a runtime-internal semaphore (allocation during the stop-the-world of this dump)
			if bytes.Contains(g, []byte("verifharness/sched.(*Sched)")) {
				break
			}
			if st == "semacquire" && !bytes.Contains(g, []byte("\nsync.(*")) {
				break
			}
			out[id] = st + "\n" + string(g)
		default:
			// running, runnable, syscall, preempted, copystack, GC ...: not blocked
		}
		// (a goroutine inside the scheduler's own hook code counts too: it may be arriving at its FIRST yield point and
		// not be registered yet; registered ones are filtered out by foreignMoving)
		if _, blocked := out[id]; !blocked {
			for _, f := range f1Frames {
				if bytes.Contains(g, f) {
					moving[id] = true
					break
				}
			}
		}
	}
	return out, alive, moving
}

// foreignMoving: a goroutine of the system under test that the scheduler does not know yet (it has not reached
// its first yield point) is runnable - e.g. the pool's stopper just woken by a cancellation. The state is not
// quiescent until it has announced itself or blocked.
func (s *Sched) foreignMoving(moving map[int64]bool) bool {
	for id := range moving {
		known := false
		for _, p := range s.order {
			if p.Goid == id {
				known = true
				break
			}
		}
		if !known {
			return true
		}
	}
	return false
}

// Quiesce waits until no scheduled goroutine can run: each is at a yield point, done, or really
// blocked in the runtime (parked in Cond.Wait, on a mutex, a channel, ...) as confirmed by the
// goroutine dump taken while nothing else is running.
func (s *Sched) Quiesce() error {
	deadline := time.Now().Add(s.Timeout)
	spins := 0
	confirmations := 0
	for {
		s.mu.Lock()
		nRunning, nCheck := 0, 0
		for _, p := range s.order {
			switch p.State {
			case Running:
				nRunning++
			case Parked, Blocked:
				nCheck++
			}
		}
		s.mu.Unlock()
		if nRunning == 0 && nCheck == 0 {
			if !s.WatchForeign {
				return nil
			}
			_, _, moving := blockedStatus()
			s.mu.Lock()
			fm := s.foreignMoving(moving)
			s.mu.Unlock()
			if !fm {
				return nil
			}
			if time.Now().After(deadline) {
				return fmt.Errorf("sched: an unregistered goroutine of the system is still running after %s: %v", s.Timeout, s.describe())
			}
			time.Sleep(20 * time.Microsecond)
			continue
		}
		spins++
		if nRunning > 0 && spins < 40 {
			runtime.Gosched()
			continue
		}
		if nRunning > 0 && spins < 400 && spins%8 != 0 {
			time.Sleep(10 * time.Microsecond)
			continue
		}
		bl, alive, moving := blockedStatus()
		stable := true
		s.mu.Lock()
		if s.WatchForeign && s.foreignMoving(moving) {
			stable = false
		}
		for _, p := range s.order {
			switch p.State {
			case Running:
				if !alive[p.Goid] {
					p.State = Done // the goroutine has returned
					p.Point = ""
				} else if _, ok := bl[p.Goid]; ok {
					p.State = Blocked
				} else {
					stable = false
				}
			case Parked, Blocked:
				if why, ok := bl[p.Goid]; !ok {
					stable = false // announced/was blocked, but is runnable right now: wait for it to settle
				} else {
					p.Why = why
				}
			}
		}
		s.mu.Unlock()
		if stable {
			confirmations++
			if confirmations >= 2 {
				return nil
			}
			time.Sleep(30 * time.Microsecond)
			continue
		}
		confirmations = 0
		if time.Now().After(deadline) {
			return fmt.Errorf("sched: goroutines still running after %s: %v", s.Timeout, s.describe())
		}
		if spins > 400 {
			time.Sleep(50 * time.Microsecond)
		}
	}
}

func (s *Sched) describe() []string {
	s.mu.Lock()
	defer s.mu.Unlock()
	var out []string
	for _, p := range s.order {
		out = append(out, fmt.Sprintf("%s:%s@%s", p.Name, p.State, p.Point))
	}
	return out
}

// Enabled lists the goroutines that can be released (those at a yield point), in first-seen order.
func (s *Sched) Enabled() []string {
	s.mu.Lock()
	defer s.mu.Unlock()
	var out []string
	for _, p := range s.order {
		if p.State == AtYield {
			out = append(out, p.Name)
		}
	}
	return out
}

// Step releases goroutine `name` from its yield point and waits for quiescence. It returns the
// logged event.
func (s *Sched) Step(name string) (Event, error) {
	s.mu.Lock()
	p := s.byName[name]
	if p == nil || p.State != AtYield {
		st := "unknown"
		if p != nil {
			st = p.State.String() + "@" + p.Point
		}
		s.mu.Unlock()
		return Event{}, fmt.Errorf("sched: %s is not at a yield point (%s)", name, st)
	}
	from := p.Point
	p.State = Running
	p.Point = ""
	p.steps++
	s.mu.Unlock()
	p.resume <- struct{}{}
	if err := s.Quiesce(); err != nil {
		return Event{}, err
	}
	s.mu.Lock()
	ev := Event{Proc: name, From: from, To: p.Point, State: p.State.String(), N: p.N}
	s.Log = append(s.Log, ev)
	s.mu.Unlock()
	return ev, nil
}

// AllDone reports whether every scheduled goroutine has finished.
func (s *Sched) AllDone() bool {
	s.mu.Lock()
	defer s.mu.Unlock()
	for _, p := range s.order {
		if p.State != Done {
			return false
		}
	}
	return true
}

// Describe returns "name:state@point" for every process.
func (s *Sched) Describe() []string { return s.describe() }
