package main

import (
	"fmt"
	"math"
	"path/filepath"
	"strings"
	"sync"
	"time"

	"github.com/form3tech-oss/f1/v2/internal/trigger/gaussian"
	"github.com/form3tech-oss/f1/v2/internal/verifhook"
	"github.com/form3tech-oss/f1/v2/pkg/f1"
	f1testing "github.com/form3tech-oss/f1/v2/pkg/f1/testing"
)

// C11: outputs of the REAL gaussian calculator over whole repeat windows.
type c11win struct {
	S     int64 `json:"S"`
	Wk    int64 `json:"wk"`
	MaxV  int64 `json:"maxv"`
	PeakV int64 `json:"peakv"`
	MinV  int64 `json:"minv"`
	Tol   int64 `json:"tol"`
	Idx   int   `json:"idx"`
}

type c11trace struct {
	V        int64    `json:"V"`
	W        int64    `json:"W"`
	N        int64    `json:"n"`
	Args     string   `json:"args"`
	Via      string   `json:"via"`
	Panicked bool     `json:"panicked"`
	Err      string   `json:"err,omitempty"`
	Windows  []c11win `json:"windows"`
}

func phi(x, mu, sd float64) float64 {
	z := (x - mu) / sd
	return math.Exp(-z*z/2) / (sd * math.Sqrt(2*math.Pi))
}

func cdf(x, mu, sd float64) float64 { return 0.5 * math.Erfc(-(x-mu)/(sd*math.Sqrt2)) }

func runC11(c *ctx, via string, vol float64, repeat, freq, peak, sd time.Duration, weights []float64, t0 time.Time) (tr c11trace) {
	ws := make([]string, len(weights))
	var wsum float64
	for i, w := range weights {
		ws[i] = fmt.Sprintf("%g", w)
		wsum += w
	}
	tr = c11trace{V: int64(vol), Via: via, Args: fmt.Sprintf("volume=%g repeat=%s freq=%s peak=%s sd=%s weights=%s t0=%s", vol, repeat, freq, peak, sd, strings.Join(ws, ","), t0.Format(time.RFC3339))}
	nw := len(weights)
	if nw == 0 {
		tr.W, tr.N = 100, 1
	} else {
		tr.W, tr.N = int64(math.Round(wsum*100)), int64(nw)
	}
	defer func() {
		if r := recover(); r != nil {
			tr.Panicked = true
			tr.Err = fmt.Sprint(r)
		}
	}()
	var rateFn func(time.Time) int
	if via == "calculator" {
		calc, err := gaussian.NewCalculator(peak, sd, freq, weights, vol, repeat)
		if err != nil {
			tr.Err = err.Error()
			tr.Panicked = true // inside the documented domain the profile must be accepted
			return tr
		}
		rateFn = calc.For
	} else {
		jit := 0.0
		if via == "rates-jitter" {
			jit = 80
		}
		wstr := strings.Join(ws, ",")
		if via == "rates-sloppy" && nw > 0 {
			// the weight list as people type it: a trailing, leading or doubled comma. Such a list is either refused or
			// means its non-empty entries - an empty entry is not a weight (least of all a silent window)
			switch c.rng.Intn(3) {
			case 0:
				wstr += ","
			case 1:
				wstr = "," + wstr
			default:
				wstr = strings.Replace(wstr, ",", ",,", 1)
			}
			tr.Args += " written=" + wstr
		}
		dist := "none"
		if strings.HasPrefix(via, "rates-dist-") {
			dist = strings.TrimPrefix(via, "rates-dist-") // the profile spread over 100 ms sub-ticks: same volume, tick by tick
		}
		rates, err := gaussian.CalculateGaussianRate(vol, jit, repeat, freq, peak, sd, wstr, dist)
		if err != nil && via == "rates-sloppy" {
			tr.Via = "refused"
			return tr
		}
		if err != nil {
			tr.Err = err.Error()
			tr.Panicked = true
			return tr
		}
		rateFn = rates.Rate
		if dist != "none" && rates.IterationDuration > 0 && rates.IterationDuration < freq {
			// one tick of the profile = the sub-ticks the trigger makes in it, called one after another as the iteration
			// worker does; no sub-tick may be negative either
			sub, n := rates.Rate, int(freq/rates.IterationDuration)
			step := rates.IterationDuration
			rateFn = func(t time.Time) int {
				sum := 0
				for q := 0; q < n; q++ {
					v := sub(t.Add(time.Duration(q) * step))
					if v < 0 {
						return v
					}
					sum += v
				}
				return sum
			}
		}
	}
	nTicks := int(repeat / freq)
	nWin := nw + 1
	if nWin < 2 {
		nWin = 2
	}
	// discretisation tolerance of the tick frequency, from the inputs only: the Riemann-sum edge terms of
	// the normalisation ( f * (phi(0) + phi(R-f) + phi(R)) / covered mass ), the carry in/out (2) and 1e-6 V
	R, f, mu, s := float64(repeat), float64(freq), float64(peak), float64(sd)
	mass := cdf(R-f, mu, s) - cdf(0, mu, s)
	edge := f * (phi(0, mu, s) + phi(R-f, mu, s) + phi(R, mu, s)) / mass
	// the windows are normally visited one after another; every third weighted trace visits them out of
	// order (a window skipped, the clock stepped back): each window's volume depends on ITS place in the
	// weight cycle only
	visit := make([]int, nWin)
	for k := range visit {
		visit[k] = k
	}
	if nw > 0 && c.rng.Intn(3) == 0 {
		for k := range visit {
			visit[k] = c.rng.Intn(nWin + 3)
		}
		tr.Args += fmt.Sprintf(" visit=%v", visit)
	}
	// a real ticker does not fire on the window grid: every third trace shifts all its ticks by one constant phase
	// inside the tick period
	phase := time.Duration(0)
	if c.rng.Intn(3) == 0 {
		phase = time.Duration(c.rng.Int63n(int64(freq)))
		tr.Args += fmt.Sprintf(" phase=%s", phase)
	}
	// the tick nearest the configured peak (ticks are at j*freq + phase inside the window)
	peakTick := int(math.Round((mu - float64(phase)) / f))
	if peakTick >= nTicks {
		peakTick = nTicks - 1
	}
	if peakTick < 0 {
		peakTick = 0
	}
	for _, k := range visit {
		start := t0.Add(time.Duration(k) * repeat)
		w := c11win{MinV: math.MaxInt32}
		wk := 1.0
		if nw > 0 {
			// position of this window in the weight cycle (cycles are aligned like the windows themselves)
			w.Idx = int(start.Sub(start.Truncate(repeat*time.Duration(nw))) / repeat)
			wk = weights[w.Idx]
			w.Wk = int64(math.Round(wk * 100))
		} else {
			w.Wk = 100
		}
		for j := 0; j < nTicks; j++ {
			v := int64(rateFn(start.Add(time.Duration(j)*freq + phase)))
			w.S += v
			if v > w.MaxV {
				w.MaxV = v
			}
			if v < w.MinV {
				w.MinV = v
			}
			if j == peakTick {
				w.PeakV = v
			}
		}
		expect := vol * wk * float64(nw) / math.Max(wsum, 1e-12)
		if nw == 0 {
			expect = vol
		}
		w.Tol = int64(math.Ceil(1.5*edge*expect + 2 + 1e-6*expect))
		if via == "rates-jitter" {
			// with jitter only "requests are never negative" is a per-tick statement (C13 covers the totals)
			// (what jitter holds back at the end of one window is delivered in the next - also in a silent one)
			w.Tol, w.PeakV = int64(expect)*3+1000+int64(vol), w.MaxV
		}
		tr.Windows = append(tr.Windows, w)
	}
	return tr
}

// runC11CLI: the volume per window of a gaussian run started from the command line, as the SECOND run on its F1
// instance: the earlier run was weighted (--weights 0,2), this one gives no weights - every window delivers the volume.
// Requests are captured at the trigger's own evaluation point (hook iw.eval) and summed per repeat window (windows are
// aligned to multiples of the repeat duration); only windows that were observed whole are reported.
func runC11CLI() (tr c11trace) {
	const vol = 200
	repeat := 500 * time.Millisecond
	tr = c11trace{V: vol, W: 100, N: 1, Via: "cli-second-run", Args: "volume=200 repeat=500ms freq=50ms peak=250ms sd=100ms, earlier run on the instance: --weights 0,2"}
	defer func() {
		if r := recover(); r != nil {
			tr.Panicked = true
			tr.Err = fmt.Sprint(r)
		}
	}()
	var mu sync.Mutex
	recording := false
	sums := map[int64]*c11win{}
	var firstW, lastW int64 = -1, -1
	verifhook.Install(func(point string, _ any, n int64) {
		if point != "iw.eval" {
			return
		}
		mu.Lock()
		defer mu.Unlock()
		if !recording {
			return
		}
		w := time.Now().UnixNano() / int64(repeat)
		if firstW < 0 {
			firstW = w
		}
		lastW = w
		if sums[w] == nil {
			sums[w] = &c11win{Wk: 100, MinV: math.MaxInt32}
		}
		x := sums[w]
		x.S += n
		if n > x.MaxV {
			x.MaxV = n
		}
		if n < x.MinV {
			x.MinV = n
		}
	})
	defer verifhook.Install(nil)
	scn := func(*f1testing.T) f1testing.RunFn { return func(*f1testing.T) {} }
	inst := f1.New().WithLogger(discardLogger()).Add("scn", scn)
	common := []string{"run", "gaussian", "scn", "--volume", "200", "--repeat", "500ms", "--iteration-frequency", "50ms", "--peak", "250ms",
		"--standard-deviation", "100ms", "--distribution", "none", "-c", "50"}
	_ = inst.ExecuteWithArgs(append(append([]string{}, common...), "--weights", "0,2", "--max-duration", "200ms"))
	mu.Lock()
	recording = true
	mu.Unlock()
	if err := inst.ExecuteWithArgs(append(append([]string{}, common...), "--max-duration", "2200ms")); err != nil {
		tr.Err = err.Error()
	}
	mu.Lock()
	recording = false
	for w := firstW + 1; w < lastW; w++ { // whole windows only
		if x := sums[w]; x != nil {
			x.PeakV = x.MaxV // (which tick is nearest the peak is not decidable by the wall clock)
			x.Tol = 45       // a tick next to a window boundary may be counted on the other side of it
			tr.Windows = append(tr.Windows, *x)
		}
	}
	mu.Unlock()
	return tr
}

func init() {
	register("c11", func(c *ctx) error {
		w, err := newNDJSON(filepath.Join(c.out, "c11.ndjson"))
		if err != nil {
			return err
		}
		defer w.close()
		n := c.pick(250, 2500)
		for k := 0; k < n; k++ {
			freq := []time.Duration{100 * time.Millisecond, time.Second, 10 * time.Second, time.Minute}[c.rng.Intn(4)]
			nTicks := []int{24, 60, 100, 360, 1440}[c.rng.Intn(5)]
			repeat := time.Duration(nTicks) * freq
			peak := time.Duration(float64(repeat) * (0.25 + 0.5*c.rng.Float64()))
			peak = peak.Truncate(freq / 4)
			sd := time.Duration(float64(freq) + c.rng.Float64()*float64(repeat/8-freq))
			if sd < freq {
				sd = freq
			}
			if k%5 == 4 {
				// the peak lies OUTSIDE the repeat window, 5.5 to 9 standard deviations beyond its end (e.g. hourly windows
				// of a daily profile): the window still delivers its volume, rising towards its last tick
				nTicks = []int{360, 1440, 3600}[c.rng.Intn(3)]
				repeat = time.Duration(nTicks) * freq
				sd = time.Duration(float64(repeat) * (0.3 + 0.7*c.rng.Float64()))
				peak = repeat + time.Duration(float64(sd)*(5.5+3.5*c.rng.Float64()))
			}
			vol := float64([]int{100, 1000, 5000, 86400, 100000}[c.rng.Intn(5)] + c.rng.Intn(50))
			var weights []float64
			switch c.rng.Intn(4) {
			case 0:
			default:
				for i := 0; i < []int{2, 3, 5, 7}[c.rng.Intn(4)]; i++ {
					wv := float64(25+25*c.rng.Intn(12)) / 100
					if i > 0 && c.rng.Intn(6) == 0 {
						wv = 0 // a silent window (e.g. no weekend load); the first weight stays positive so the sum is
					}
					weights = append(weights, wv)
				}
			}
			// an arbitrary absolute window start (windows are aligned to multiples of the repeat duration)
			t0 := time.Date(2024, time.Month(1+c.rng.Intn(12)), 1+c.rng.Intn(28), c.rng.Intn(24), 0, 0, 0, time.UTC).Truncate(repeat)
			via := "calculator"
			if k%3 == 0 {
				via = "rates"
			}
			if k%7 == 3 {
				via = "rates-jitter"
			}
			if k%9 == 6 && len(weights) > 0 {
				via = "rates-sloppy"
			}
			if k%11 == 5 && freq == time.Second {
				via = []string{"rates-dist-random", "rates-dist-regular"}[c.rng.Intn(2)]
			}
			if tr := runC11(c, via, vol, repeat, freq, peak, sd, weights, t0); tr.Via != "refused" {
				w.write(tr)
			}
		}
		// through the command line, as the second run on an F1 instance
		if tr := runC11CLI(); len(tr.Windows) >= 2 || tr.Panicked {
			w.write(tr)
		} else {
			fmt.Println("c11: command-line row inconclusive:", len(tr.Windows), "whole windows", tr.Err)
		}
		// the defaults of the CLI: 24 h window, 1 s ticks, peak 14 h, sd 150 min, weekly weights
		w.write(runC11(c, "rates", 86400, 24*time.Hour, time.Second, 14*time.Hour, 150*time.Minute, nil, time.Date(2024, 3, 4, 0, 0, 0, 0, time.UTC)))
		w.write(runC11(c, "rates", 100000, 24*time.Hour, time.Minute, 14*time.Hour, 150*time.Minute, []float64{1, 1, 1, 1, 1, 0.5, 0.25},
			time.Date(2024, 3, 4, 0, 0, 0, 0, time.UTC)))
		fmt.Println("c11 traces:", w.n)
		return nil
	})
}
