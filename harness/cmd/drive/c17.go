package main

import (
	"context"
	"fmt"
	"path/filepath"
	"regexp"
	"strconv"
	"strings"
	"sync"
	"time"

	"github.com/form3tech-oss/f1/v2/internal/metrics"
	"github.com/form3tech-oss/f1/v2/internal/options"
	"github.com/form3tech-oss/f1/v2/internal/progress"
	"github.com/form3tech-oss/f1/v2/internal/run"
	"github.com/form3tech-oss/f1/v2/internal/run/views"
	f1testing "github.com/form3tech-oss/f1/v2/pkg/f1/testing"
	"github.com/prometheus/client_golang/prometheus"
)

// C17 (a) sequential op logs of the REAL progress.Stats; (b) timed single-worker runs.
func figs(s progress.IterationDurationsSnapshot) []int64 {
	return []int64{int64(s.Count), int64(s.Average), int64(s.Min), int64(s.Max)}
}

func obsOf(s progress.Snapshot) []int64 {
	o := append(figs(s.SuccessfulIterationDurations), figs(s.FailedIterationDurations)...)
	o = append(o, figs(s.SuccessfulIterationDurationsForPeriod)...)
	return append(o, int64(s.DroppedIterationCount))
}

var c17line = regexp.MustCompile(`\((\d+)/s\)\s+avg: ([^,]+), min: ([^,]+), max: (\S+)`)

type c17seq struct {
	Ev [][]any `json:"ev"`
}

func runC17Seq(c *ctx, nops int, maxd int, pSnap int) c17seq {
	st := &progress.Stats{}
	tr := c17seq{}
	recs := 0
	for k := 0; k < nops; k++ {
		x := c.rng.Intn(100)
		switch {
		case x < pSnap:
			tr.Ev = append(tr.Ev, []any{"s", obsOf(st.Snapshot(time.Second))})
		case x < pSnap+3:
			tr.Ev = append(tr.Ev, []any{"t", obsOf(st.Total())})
		case x < pSnap+8:
			st.Record(metrics.DroppedResult, 0)
			tr.Ev = append(tr.Ev, []any{"d"})
		default:
			if recs >= 2000 {
				continue
			}
			recs++
			d := 1 + c.rng.Intn(maxd)
			if c.rng.Intn(4) == 0 {
				d = 1 + c.rng.Intn(3)
			}
			o := metrics.SuccessResult
			if c.rng.Intn(3) == 0 {
				o = metrics.FailedResult
			}
			st.Record(o, int64(d))
			tr.Ev = append(tr.Ev, []any{"r", o.String(), d})
		}
	}
	tr.Ev = append(tr.Ev, []any{"t", obsOf(st.Total())})
	return tr
}

// the same kind of sequence THROUGH run.Result, the way a run uses the statistics: a progress tick is
// SnapshotProgress + rendering the line + the dropped-iterations test; the end of the run is GetTotals + Summary. The
// read-only calls of Result (rendering, Failed, HasDroppedIterations, Error) are no snapshot points: what is recorded
// while they run belongs to the next period
func runC17SeqResult(c *ctx, nops int, maxd int, pSnap int) c17seq {
	st := &progress.Stats{}
	res := run.NewResult(options.RunOptions{Scenario: "s", MaxDuration: time.Second, Concurrency: 1}, views.New(), st)
	res.RecordStarted()
	tr := c17seq{}
	recs := 0
	reads := func() {
		switch c.rng.Intn(5) {
		case 0:
			_ = res.HasDroppedIterations()
		case 1:
			_ = res.Progress().Render()
		case 2:
			_ = res.Failed()
		case 3:
			_ = res.Error()
		}
	}
	for k := 0; k < nops; k++ {
		x := c.rng.Intn(100)
		switch {
		case x < pSnap:
			res.SnapshotProgress(time.Second)
			obs := obsOf(res.Snapshot())
			// the period figures as the progress LINE states them (what the user sees): "(<count per second>/s)   avg: .., min: ..,
			// max: .." - with a one-second period the rate is the period's count
			if m := c17line.FindStringSubmatch(res.Progress().Render()); m != nil {
				cnt, e0 := strconv.ParseInt(m[1], 10, 64)
				avg, e1 := time.ParseDuration(m[2])
				mn, e2 := time.ParseDuration(m[3])
				mx, e3 := time.ParseDuration(m[4])
				if e0 == nil && e1 == nil && e2 == nil && e3 == nil {
					obs[8], obs[9], obs[10], obs[11] = cnt, int64(avg), int64(mn), int64(mx)
				} else {
					obs[8] = -1 // a line that cannot be read is not the period's figures either
				}
			} else {
				obs[8] = -1
			}
			tr.Ev = append(tr.Ev, []any{"s", obs})
			_ = res.HasDroppedIterations()
		case x < pSnap+3:
			res.GetTotals()
			tr.Ev = append(tr.Ev, []any{"t", obsOf(res.Snapshot())})
			_ = res.Summary().Render()
		case x < pSnap+8:
			st.Record(metrics.DroppedResult, 0)
			tr.Ev = append(tr.Ev, []any{"d"})
			reads()
		default:
			if recs >= 2000 {
				continue
			}
			recs++
			d := 1 + c.rng.Intn(maxd)
			o := metrics.SuccessResult
			if c.rng.Intn(3) == 0 {
				o = metrics.FailedResult
			}
			st.Record(o, int64(d))
			tr.Ev = append(tr.Ev, []any{"r", o.String(), d})
			reads()
		}
	}
	res.GetTotals()
	tr.Ev = append(tr.Ev, []any{"t", obsOf(res.Snapshot())})
	return tr
}

// all sequences of <= n ops over a small alphabet (the space MC_ProgressSeq explores)
func c17exhaustive(w *ndjson, n int) {
	type op struct {
		k string
		o metrics.ResultType
		d int
	}
	alpha := []op{{"r", metrics.SuccessResult, 1}, {"r", metrics.SuccessResult, 2}, {"r", metrics.SuccessResult, 5},
		{"r", metrics.FailedResult, 2}, {"r", metrics.FailedResult, 5}, {"s", "", 0}, {"t", "", 0}, {"d", "", 0}}
	var rec func(seq []op)
	rec = func(seq []op) {
		if len(seq) == n {
			st := &progress.Stats{}
			tr := c17seq{}
			for _, o := range seq {
				switch o.k {
				case "r":
					st.Record(o.o, int64(o.d))
					tr.Ev = append(tr.Ev, []any{"r", o.o.String(), o.d})
				case "s":
					tr.Ev = append(tr.Ev, []any{"s", obsOf(st.Snapshot(time.Second))})
				case "t":
					tr.Ev = append(tr.Ev, []any{"t", obsOf(st.Total())})
				case "d":
					st.Record(metrics.DroppedResult, 0)
					tr.Ev = append(tr.Ev, []any{"d"})
				}
			}
			tr.Ev = append(tr.Ev, []any{"s", obsOf(st.Snapshot(time.Second))})
			w.write(tr)
			return
		}
		for _, a := range alpha {
			rec(append(seq, a))
		}
	}
	rec(nil)
}

type c17measure struct {
	Case      string  `json:"case"`
	N         int     `json:"n"`
	BodyUs    []int64 `json:"body_us"` // each body's elapsed time by the body's own monotonic clock
	RecCount  int64   `json:"rec_count"`
	RecMinUs  int64   `json:"rec_min_us"`
	RecMaxUs  int64   `json:"rec_max_us"`
	RecAvgUs  int64   `json:"rec_avg_us"`
	MetSumUs  int64   `json:"met_sum_us"`
	MetCount  int64   `json:"met_count"`
	ExtraUs   int64   `json:"extra_us"` // time deliberately spent OUTSIDE the body (cleanup sleep / queueing)
	SlackUs   int64   `json:"slack_us"`
	Overshoot bool    `json:"overshoot"` // the harness's own sleeps overshot by more than the slack: inconclusive
	Err       string  `json:"err,omitempty"`
}

// one run: n iterations on ONE worker, each body sleeps bodySleep and ends in `ending`; cleanups
// sleep cleanupSleep; with burst all n are requested in one tick so they queue behind the worker.
func runC17Measure(name, ending string, n int, bodySleep, cleanupSleep time.Duration, burst bool) c17measure {
	row := c17measure{Case: name, N: n, SlackUs: 100_000}
	var mu sync.Mutex
	var worst time.Duration
	fn := func(t *f1testing.T) f1testing.RunFn {
		return func(t *f1testing.T) {
			start := time.Now()
			if cleanupSleep > 0 {
				t.Cleanup(func() { time.Sleep(cleanupSleep) })
			}
			defer func() {
				// runs while the panic (if any) unwinds: still inside the body by the body's own clock
				el := time.Since(start)
				mu.Lock()
				row.BodyUs = append(row.BodyUs, el.Microseconds())
				if el-bodySleep > worst {
					worst = el - bodySleep
				}
				mu.Unlock()
			}()
			time.Sleep(bodySleep)
			switch ending {
			case "fail":
				t.Fail()
			case "failnow":
				t.FailNow()
			case "require":
				t.Require().Equal(1, 2)
			case "panic":
				panic("boom")
			}
		}
	}
	sr := simpleRun{Mode: "users", Concurrency: 1, MaxIter: uint64(n)}
	if burst {
		sr = simpleRun{Mode: "constant", Rate: fmt.Sprintf("%d/10s", n+1), Concurrency: 1, MaxIter: uint64(n)}
		row.ExtraUs = (time.Duration(n-1) * bodySleep).Microseconds() // the last one waited this long for the worker
	}
	if cleanupSleep > 0 {
		row.ExtraUs = cleanupSleep.Microseconds()
	}
	if strings.HasPrefix(name, "second-run/") {
		// the process has already run this scenario once on the same metrics instance (as an embedding program that
		// calls f1 repeatedly does): the figures of THIS run still cover its own bodies
		sr.Metrics = metrics.NewInstance(prometheus.NewRegistry(), true, nil)
		warm := sr
		warm.MaxIter = 1
		wfn := func(*f1testing.T) f1testing.RunFn {
			return func(t *f1testing.T) {
				if ending != "" {
					t.Fail()
				}
			}
		}
		if _, _, err := warm.do(context.Background(), wfn); err != nil {
			row.Err = "warm-up run: " + err.Error()
			return row
		}
	}
	res, m, err := sr.do(context.Background(), fn)
	if err != nil {
		row.Err = err.Error()
		return row
	}
	snap := res.Snapshot()
	d := snap.SuccessfulIterationDurations
	if ending != "" {
		d = snap.FailedIterationDurations
	}
	row.RecCount, row.RecMinUs, row.RecMaxUs, row.RecAvgUs = int64(d.Count), d.Min.Microseconds(), d.Max.Microseconds(), d.Average.Microseconds()
	mts, _ := gatherFamily(m, "form3_loadtest_iteration")
	for _, mt := range mts {
		if labelOf(mt, "result") != "dropped" {
			row.MetCount += int64(mt.GetSummary().GetSampleCount())
			row.MetSumUs += int64(mt.GetSummary().GetSampleSum() / 1000)
		}
	}
	row.Overshoot = worst.Microseconds() > row.SlackUs/2
	return row
}

func init() {
	register("c17", func(c *ctx) error {
		if c.extra["measure_only"] == "" {
			w, err := newNDJSON(filepath.Join(c.out, "c17seq.ndjson"))
			if err != nil {
				return err
			}
			c17exhaustive(w, c.pick(4, 5))
			n := c.pick(60, 600)
			for k := 0; k < n; k++ {
				w.write(runC17Seq(c, 50+c.rng.Intn(c.pick(200, 600)), []int{5, 1000, 1_000_000}[c.rng.Intn(3)], []int{3, 10, 40}[c.rng.Intn(3)]))
				if k%2 == 0 {
					w.write(runC17SeqResult(c, 50+c.rng.Intn(c.pick(200, 600)), []int{5, 1000, 1_000_000}[c.rng.Intn(3)], []int{3, 10, 40}[c.rng.Intn(3)]))
				}
			}
			w.close()
			fmt.Println("c17 sequences:", w.n)
			return nil
		}
		w2, err := newNDJSON(filepath.Join(c.out, "c17measure.ndjson"))
		if err != nil {
			return err
		}
		defer w2.close()
		ms := time.Millisecond
		var wg sync.WaitGroup
		var mu sync.Mutex
		add := func(name, ending string, n int, body, cl time.Duration, burst bool) {
			wg.Add(1)
			go func() {
				defer wg.Done()
				r := runC17Measure(name, ending, n, body, cl, burst)
				mu.Lock()
				w2.write(r)
				mu.Unlock()
			}()
		}
		for _, e := range []string{"", "fail", "failnow", "require", "panic"} {
			add("body-only/"+e, e, 2, 60*ms, 0, false)
			add("cleanup-excluded/"+e, e, 1, 40*ms, 250*ms, false)
			add("queue-wait-excluded/"+e, e, 3, 220*ms, 0, true)
			add("second-run/"+e, e, 2, 30*ms, 0, false)
		}
		wg.Wait()
		fmt.Println("c17 measurements:", w2.n)
		return nil
	})
}
