package main

import (
	"bytes"
	"context"
	"encoding/json"
	"fmt"
	"log/slog"
	"os"
	"path/filepath"
	"regexp"
	"runtime"
	"sort"
	"strconv"
	"strings"
	"sync"
	"sync/atomic"
	"syscall"
	"time"

	"github.com/prometheus/client_golang/prometheus"

	"github.com/form3tech-oss/f1/v2/internal/metrics"
	"github.com/form3tech-oss/f1/v2/internal/options"
	"github.com/form3tech-oss/f1/v2/internal/progress"
	"github.com/form3tech-oss/f1/v2/internal/run"
	"github.com/form3tech-oss/f1/v2/internal/trigger/api"
	"github.com/form3tech-oss/f1/v2/internal/trigger/constant"
	"github.com/form3tech-oss/f1/v2/internal/trigger/file"
	"github.com/form3tech-oss/f1/v2/internal/trigger/gaussian"
	"github.com/form3tech-oss/f1/v2/internal/trigger/ramp"
	"github.com/form3tech-oss/f1/v2/internal/trigger/staged"
	"github.com/form3tech-oss/f1/v2/internal/trigger/users"
	"github.com/form3tech-oss/f1/v2/internal/ui"
	"github.com/form3tech-oss/f1/v2/internal/verifhook"
	"github.com/form3tech-oss/f1/v2/pkg/f1"
	f1testing "github.com/form3tech-oss/f1/v2/pkg/f1/testing"
)

// Whole-run traces: REAL run.Run.Do in every trigger mode, observed through the scenario function,
// the verif hooks (free-running: they only log), the captured progress log, the returned Result and a
// private Prometheus registry. One ndjson line per run; TLC validates each against spec/F1Run.tla.

type rEv struct {
	K  string `json:"k"`
	A  int64  `json:"a"`
	B  int64  `json:"b"`
	C  int64  `json:"c"` // time in microseconds since the run started, when meaningful
	D  int64  `json:"d"`
	S  string `json:"s"`
	S2 string `json:"b2"`
	E  int64  `json:"e"` // stage events: the stage's configured duration in microseconds
}

type rCfg struct {
	Name            string `json:"name"`
	Mode            string `json:"mode"`
	RateMode        bool   `json:"rate_mode"`
	Conc            int    `json:"conc"`
	MaxIter         int64  `json:"maxiter"`
	MaxDurUs        int64  `json:"maxdur_us"`
	TrigDurUs       int64  `json:"trigdur_us"` // trigger's own total duration (0 = unlimited)
	IntervalUs      int64  `json:"interval_us"`
	WaitUs          int64  `json:"wait_us"`
	CancelUs        int64  `json:"cancel_us"` // 0 = never cancelled
	SetupFail       bool   `json:"setup_fail"`
	SetupMode       string `json:"setup_mode"`
	SetupUs         int64  `json:"setup_us"`      // setup sleeps this long
	CleanupUs       int64  `json:"cleanup_us"`    // every iteration cleanup sleeps this long
	Wedge           bool   `json:"wedge"`         // negative replay of RunLifecycle's wedge: park a due progress tick until main is inside Summary
	StopDelayUs     int64  `json:"stop_delay_us"` // the hook parks the pool's stop goroutine this long at tp.stop.flagged
	PoolOnly        bool   `json:"pool_only"`     // cooperative pool schedules: no Run.Do around the pool
	Light           bool   `json:"light"`         // contention runs: bodies only record their id lock-free; no end/cleanup events
	Blockers        int    `json:"blockers"`
	Ample           bool   `json:"ample"` // concurrency >= every tick and instant bodies: nothing can be pending at a tick
	Rendezvous      bool   `json:"rendezvous"`
	StageEndDelayAt int    `json:"stage_end_delay_at"` // file mode: the stage loop is held for stage_end_delay_us when this stage (1-based) ends
	StageEndDelayUs int64  `json:"stage_end_delay_us"`
	StallFirstUs    int64  `json:"stall_first_us"` // the trigger goroutine is held this long right after its FIRST evaluation (a slow pool start)
	CancelAtEval    int    `json:"cancel_at_eval"` // file mode: the caller cancels right after this rate evaluation (1-based), while the trigger goroutine is still busy with it for stall_us
	UIntervalUs     int64  `json:"uinterval_us"`   // scripted configured-rate function: the interval it is configured for (0 = not scripted)
	StallEval       int    `json:"stall_eval"`     // the trigger goroutine is held for stall_us right after this evaluation (1-based; 0 = never)
	StallUs         int64  `json:"stall_us"`
	MetricsRuns     int    `json:"metrics_runs"`
	RunIndex        int    `json:"run_index"`
	Labels          string `json:"labels"`
	Args            string `json:"args"`
	FileStages      int    `json:"file_stages"`
	TeardownFail    bool   `json:"teardown_fail"` // a cleanup registered by the setup fails when the run is over
	StepAtUs        int64  `json:"step_at_us"`    // staged step profile: 0 until this instant of the profile, step_val from then on
	StepVal         int64  `json:"step_val"`
	StageIntervals  i64s   `json:"stage_intervals_us"` // file mode: the tick interval each stage is configured for (0 = not a rate stage / not stated)
}

// i64s is a slice of integers that is written as [] (never null) - TLC's JSON reader has no null
type i64s []int64

func (v i64s) MarshalJSON() ([]byte, error) {
	if v == nil {
		return []byte("[]"), nil
	}
	return json.Marshal([]int64(v))
}

type rTrace struct {
	skip    bool           // the command line refused the input before anything ran: nothing to validate
	Cfg     rCfg           `json:"cfg"`
	Ev      []rEv          `json:"ev"`
	Err     string         `json:"err"`
	Workers []string       `json:"workers,omitempty"` // cooperative pool schedules: the worker goroutines
	MaxIter int64          `json:"maxiter"`
	Arr     [][]any        `json:"arr,omitempty"` // cooperative pool schedules: every arrival [proc, point, n] in execution order
	Started int64          `json:"started"`       // users-pool schedules: iterations the final totals report
	Par     map[string]any `json:"par,omitempty"` // users-pool schedules: the parameters of spec/ContinuousPool.tla
}

type rCase struct {
	cfg            rCfg
	build          func(wrap func(api.RateFunction) api.RateFunction) (*api.Trigger, error)
	bodyMaxUs      int
	bodyFixedUs    int    // every body takes this long
	slowProgressUs int64  // the log sink takes this long to take a progress line
	teardownMode   string // a cleanup registered by the setup fails this way when the run is over
	failEvery      int
	mixNames       bool   // consecutive runs on one metrics instance use different scenario names
	scnName        string // scenario name of this run ("" = scn)
	failSetupOnRun int    // consecutive runs on one metrics instance: the setup of this run (1-based) fails
	stageTimers    bool   // the run uses the process-wide metrics instance and its bodies time stages with t.Time (one of them unnamed)
	lateFailUs     int64  // a goroutine started by the body marks the handle failed this long after the body returned
	asyncFail      bool   // light runs: a goroutine of the scenario marks the iteration failed just as its body returns
	helperEvery    int    // every helperEvery-th body works in a helper goroutine guarded by testing.CheckResults(t, done) that panics
	failEarly      bool   // planned failures are marked at the START of the body (the flag must survive until the body ends)
	panicEvery     int
	labels         map[string]string
	opts           func(*options.RunOptions)
	envKeys        []string
	stageEnv       []string // file mode: environment each planned stage must provide ("K=V;K=V", keys in envKeys order)
	// the run goes through the real command line (F1.ExecuteWithArgs: flag parsing, run_cmd, signal context) instead
	// of run.NewRun: cli = the trigger sub-command followed by its own flags; the common flags are derived from cfg
	cli         []string
	cliOmitConc bool     // --concurrency is left to its documented default (100): cfg.Conc says 100
	cliLimit    int64    // file trigger: --max-iterations given on the command line as well (refused, or else honoured)
	primer      []string // full argument list of an earlier run on the same F1 instance (not recorded)
	combined    bool     // the scenario is the middle component of f1.CombineScenarios(quiet, scenario, quiet)
}

type rRec struct {
	slowProgressUs  int64
	priming         atomic.Bool // an earlier run on the same F1 instance is in progress: nothing of it is recorded
	mu              sync.Mutex
	t0              time.Time
	ev              []rEv
	returned        atomic.Bool
	afterS          atomic.Int64
	afterE          atomic.Int64
	afterP          atomic.Int64
	stopG           map[int64]bool
	envKeys         []string
	stageIdx        int
	stageEnv        []string
	stopDelay       time.Duration
	endMsgUs        atomic.Int64 // when the run said why triggering stopped (0 = not yet)
	firstStageUs    atomic.Int64 // when the first stage of a file-mode run began (0 = not yet)
	stageEndDelayAt int
	stageEndDelayUs int64
	cancelAtEval    int
	stallFirstUs    int64
	cancelFn        func()
	stallEval       int
	stallUs         int64
	nEval           atomic.Int64
	wedge           bool
	atSummary       chan struct{}
	sumOnce         sync.Once
}

func (r *rRec) us() int64 { return time.Since(r.t0).Microseconds() }

func (r *rRec) add(e rEv) {
	if r.priming.Load() {
		return // an earlier run on the same F1 instance: not the run under observation
	}
	r.mu.Lock()
	r.ev = append(r.ev, e)
	r.mu.Unlock()
}

var goidRe2 = regexp.MustCompile(`^goroutine (\d+) \[`)

func curGoid() int64 {
	var buf [64]byte
	n := runtime.Stack(buf[:], false)
	m := goidRe2.FindSubmatch(buf[:n])
	if m == nil {
		return -1
	}
	id, _ := strconv.ParseInt(string(m[1]), 10, 64)
	return id
}

// hook is the free-running hook function: it only logs.
func (r *rRec) hook(point string, who any, n int64) {
	if r.priming.Load() {
		return
	}
	switch point {
	case "rr.tick":
		if r.wedge {
			// hold the due progress tick until the main goroutine is inside Summary (or give up after 400 ms)
			select {
			case <-r.atSummary:
			case <-time.After(400 * time.Millisecond):
			}
		}
	case "res.summary.locked":
		if r.wedge {
			r.sumOnce.Do(func() { close(r.atSummary) })
			time.Sleep(150 * time.Millisecond) // let the released tick reach SnapshotProgress (a pending writer)
		}
	case "iw.eval":
		r.add(rEv{K: "eval", A: n, C: r.us()})
		k := r.nEval.Add(1)
		if k == 1 && r.stallFirstUs > 0 {
			time.Sleep(time.Duration(r.stallFirstUs) * time.Microsecond) // schedule control: starting the pool takes most of an interval
		}
		if r.stallEval > 0 && int(k) == r.stallEval {
			time.Sleep(time.Duration(r.stallUs) * time.Microsecond) // schedule control: the trigger goroutine is starved here
		}
		if r.cancelAtEval > 0 && int(k) == r.cancelAtEval && r.cancelFn != nil {
			// the caller cancels while this goroutine is still busy with its evaluation; what it finds in the environment
			// afterwards is what a slow rate function or its request would find
			r.add(rEv{K: "cancel", C: r.us()})
			r.cancelFn()
			r.add(rEv{K: "cancelret", C: r.us()})
			time.Sleep(time.Duration(r.stallUs) * time.Microsecond)
			var env []string
			for _, key := range r.envKeys {
				if v, ok := os.LookupEnv(key); ok {
					env = append(env, key+"="+v)
				}
			}
			r.mu.Lock()
			want := ""
			if r.stageIdx >= 1 && r.stageIdx <= len(r.stageEnv) {
				want = r.stageEnv[r.stageIdx-1]
			}
			r.ev = append(r.ev, rEv{K: "evalenv", A: int64(r.stageIdx), C: r.us(), S: strings.Join(env, ";"), S2: want})
			r.mu.Unlock()
		}
	case "tp.stop.flagged":
		r.mu.Lock()
		r.stopG[curGoid()] = true
		r.ev = append(r.ev, rEv{K: "stopflag", C: r.us()})
		r.mu.Unlock()
		if r.stopDelay > 0 {
			time.Sleep(r.stopDelay) // schedule control: the stop goroutine is slow between its flag and its drain
		}
	case "tp.send.locked":
		// under the pool's cond mutex: the order of these events IS the order of publications
		g := curGoid()
		r.mu.Lock()
		if r.stopG[g] {
			r.ev = append(r.ev, rEv{K: "stopsend", C: r.us()})
		} else {
			r.ev = append(r.ev, rEv{K: "tick", A: n, C: r.us()})
		}
		r.mu.Unlock()
	case "tp.send.unlocked":
		if n > 0 {
			g := curGoid()
			r.mu.Lock()
			b := int64(0)
			if r.stopG[g] {
				b = 1
			}
			r.ev = append(r.ev, rEv{K: "dropev", A: n, B: b, C: r.us()})
			r.mu.Unlock()
		}
	case "tp.limit.discarded":
		r.add(rEv{K: "limit", C: r.us()})
	case "cp.stopper.woken":
		if r.stopDelay > 0 {
			time.Sleep(r.stopDelay) // schedule control: the users pool's stop goroutine is slow to set its flag
		}
	case "file.stage.begin", "file.stage.end":
		var env []string
		for _, k := range r.envKeys {
			if v, ok := os.LookupEnv(k); ok {
				env = append(env, k+"="+v)
			}
		}
		b := int64(0)
		r.mu.Lock()
		if point == "file.stage.begin" {
			b = 1
			r.stageIdx++
		}
		want := ""
		if r.stageIdx >= 1 && r.stageIdx <= len(r.stageEnv) {
			want = r.stageEnv[r.stageIdx-1]
		}
		// d = microseconds since the first stage began (the trigger deadline runs from before that moment)
		r.firstStageUs.CompareAndSwap(0, r.us()+1)
		since := r.us() - r.firstStageUs.Load()
		if since < 0 {
			since = 0
		}
		r.ev = append(r.ev, rEv{K: "stage", A: int64(r.stageIdx), B: b, C: r.us(), D: since, S: strings.Join(env, ";"), S2: want, E: n / 1000})
		hold := b == 0 && r.stageEndDelayAt > 0 && r.stageIdx == r.stageEndDelayAt
		r.mu.Unlock()
		if hold {
			// schedule control: the stage loop is starved between the end of this stage and its test of the context
			time.Sleep(time.Duration(r.stageEndDelayUs) * time.Microsecond)
		}
	}
}

// progress capture: a slog handler that records the iteration_stats of "progress" lines
type rHandler struct {
	rec   *rRec
	attrs []slog.Attr
}

func (h *rHandler) Enabled(context.Context, slog.Level) bool { return true }
func (h *rHandler) WithAttrs(a []slog.Attr) slog.Handler     { return h }
func (h *rHandler) WithGroup(string) slog.Handler            { return h }
func (h *rHandler) Handle(_ context.Context, rc slog.Record) error {
	if h.rec.priming.Load() {
		return nil
	}
	switch rc.Message {
	case "progress", "Load Test Passed", "Load Test Failed":
	default:
		if strings.HasPrefix(rc.Message, "recovered panic") {
			time.Sleep(2 * time.Millisecond) // a slow log sink: whoever waits for the panic to be handled waits for this too
		}
		switch {
		case strings.Contains(rc.Message, "not completed after"):
			// d = microseconds since the run announced that triggering had stopped (-1: it never did)
			since := int64(-1)
			if t := h.rec.endMsgUs.Load(); t > 0 {
				since = h.rec.us() - t
			}
			h.rec.add(rEv{K: "timeoutmsg", C: h.rec.us(), D: since})
		case strings.HasPrefix(rc.Message, "Max Duration Elapsed"):
			h.rec.endMsgUs.CompareAndSwap(0, h.rec.us()+1)
			h.rec.add(rEv{K: "endmsg", S: "maxdur", C: h.rec.us()})
		case strings.HasPrefix(rc.Message, "Max Iterations Reached"):
			h.rec.endMsgUs.CompareAndSwap(0, h.rec.us()+1)
			h.rec.add(rEv{K: "endmsg", S: "maxiter", C: h.rec.us()})
		case strings.HasPrefix(rc.Message, "Interrupted"):
			h.rec.endMsgUs.CompareAndSwap(0, h.rec.us()+1)
			h.rec.add(rEv{K: "endmsg", S: "interrupt", C: h.rec.us()})
		}
		return nil
	}
	var su, fa, dr, st int64 = -1, -1, -1, -1
	rc.Attrs(func(a slog.Attr) bool {
		if a.Key == "iteration_stats" {
			for _, g := range a.Value.Group() {
				switch g.Key {
				case "successful":
					su = int64(g.Value.Uint64())
				case "failed":
					fa = int64(g.Value.Uint64())
				case "dropped":
					dr = int64(g.Value.Uint64())
				case "started":
					st = int64(g.Value.Uint64())
				}
			}
		}
		return true
	})
	if rc.Message == "progress" {
		if h.rec.slowProgressUs > 0 {
			time.Sleep(time.Duration(h.rec.slowProgressUs) * time.Microsecond) // a slow sink (a pipe, a remote log collector)
		}
		if h.rec.returned.Load() {
			h.rec.afterP.Add(1)
		}
		h.rec.add(rEv{K: "progress", A: su, B: fa, D: dr, C: h.rec.us()})
	} else {
		s := "passed"
		if rc.Message == "Load Test Failed" {
			s = "failed"
		}
		h.rec.add(rEv{K: "summary", A: su, B: fa, D: dr, C: st, S: s})
	}
	return nil
}

var f1Frame = regexp.MustCompile(`form3tech-oss/f1/v2/(internal|pkg)/`)

// leakedF1Goroutines counts goroutines (other than the caller) that still execute f1 code.
func leakedF1Goroutines() (int, string) {
	buf := make([]byte, 1<<20)
	n := runtime.Stack(buf, true)
	cnt := 0
	first := ""
	for i, g := range bytes.Split(buf[:n], []byte("\n\n")) {
		if i == 0 {
			continue
		}
		if f1Frame.Match(g) && !bytes.Contains(g, []byte("verifharness/cmd/drive.(*rRec)")) {
			cnt++
			if first == "" {
				lines := strings.Split(string(g), "\n")
				if len(lines) > 6 {
					lines = lines[:6]
				}
				first = strings.Join(lines, " | ")
			}
		}
	}
	return cnt, first
}

func runOne(c *ctx, rc rCase, m *metrics.Metrics) rTrace {
	tr := rTrace{Cfg: rc.cfg}
	rec := &rRec{t0: time.Now(), stopG: map[int64]bool{}, envKeys: rc.envKeys, stageEnv: rc.stageEnv,
		stopDelay: time.Duration(rc.cfg.StopDelayUs) * time.Microsecond, wedge: rc.cfg.Wedge, atSummary: make(chan struct{}),
		stallEval: rc.cfg.StallEval, stallUs: rc.cfg.StallUs, stageEndDelayAt: rc.cfg.StageEndDelayAt, stageEndDelayUs: rc.cfg.StageEndDelayUs,
		cancelAtEval: rc.cfg.CancelAtEval, stallFirstUs: rc.cfg.StallFirstUs}
	rec.slowProgressUs = rc.slowProgressUs
	verifhook.Install(rec.hook)
	defer verifhook.Install(nil)
	curRec.Store(rec)
	defer curRec.Store(nil)
	var evalMu sync.Mutex
	wrap := func(f api.RateFunction) api.RateFunction {
		return func(t time.Time) int {
			evalMu.Lock()
			defer evalMu.Unlock()
			v := f(t)
			// random perturbation: the rate function may be slow
			if c.rng.Intn(7) == 0 {
				runtime.Gosched()
			}
			return v
		}
	}
	if rc.cli != nil && rc.build == nil {
		rc.build = func(func(api.RateFunction) api.RateFunction) (*api.Trigger, error) {
			return &api.Trigger{}, nil // built by the command line itself
		}
	}
	trig, err := rc.build(wrap)
	if err != nil {
		tr.Err = "build: " + err.Error()
		return tr
	}
	tr.Cfg.TrigDurUs = trig.Duration.Microseconds()
	if rc.cfg.Mode == "file" {
		// the config file's limits are the run options (as run_cmd does for triggers that ignore the common flags)
		rc.cfg.Conc, rc.cfg.MaxIter, rc.cfg.MaxDurUs = trig.Options.Concurrency, int64(trig.Options.MaxIterations), trig.Options.MaxDuration.Microseconds()
		if rc.cliLimit > 0 {
			rc.cfg.MaxIter = rc.cliLimit // (if the command line takes the flag at all, it is the limit)
		}
		tr.Cfg = rc.cfg
		tr.Cfg.TrigDurUs = trig.Duration.Microseconds()
	}
	var handles sync.Map
	var nh atomic.Int64
	var live atomic.Int64
	release := make(chan struct{})
	var blocked atomic.Int64
	var arrived atomic.Int64
	rvDone := make(chan struct{})
	var rvOnce sync.Once
	seed := c.seed
	var lightN atomic.Int64
	lightIDs := make([]int64, 0)
	// the id exactly as the scenario was handed it, kept (not copied) beyond its iteration the way a scenario that
	// collects its ids does: `ids = append(ids, t.Iteration)`
	lightRaw := make([]string, 0)
	var keptMu sync.Mutex
	type keptID struct {
		raw string
		id  int64
	}
	var kept []keptID
	if rc.cfg.Light {
		lightIDs = make([]int64, 2_000_000)
		lightRaw = make([]string, 2_000_000)
	}
	fn := func(t *f1testing.T) f1testing.RunFn {
		if rc.teardownMode != "" && !rec.priming.Load() { // (cfg.TeardownFail says so to the observer)
			t.Cleanup(func() { failWith(t, rc.teardownMode) })
		}
		t.Cleanup(func() { rec.add(rEv{K: "setupcleanup", A: live.Load(), C: rec.us()}) })
		if rc.cfg.SetupFail && !rec.priming.Load() {
			if rc.cfg.SetupUs > 0 {
				time.Sleep(time.Duration(rc.cfg.SetupUs) * time.Microsecond) // a setup that fails after a while
			}
			rec.add(rEv{K: "setup", A: 0, C: rec.us()})
			failWith(t, rc.cfg.SetupMode)
			return func(*f1testing.T) { rec.add(rEv{K: "start", A: -1, B: -1, C: rec.us()}) } // must never run
		}
		if rc.cfg.SetupUs > 0 && !rec.priming.Load() {
			time.Sleep(time.Duration(rc.cfg.SetupUs) * time.Microsecond)
		}
		rec.add(rEv{K: "setup", A: 1, C: rec.us()})
		if rc.cfg.Light {
			return func(t *f1testing.T) {
				if rec.priming.Load() {
					return
				}
				id, _ := strconv.ParseInt(t.Iteration, 10, 64)
				k := lightN.Add(1)
				if int(k) <= len(lightIDs) {
					lightIDs[k-1] = id
					lightRaw[k-1] = t.Iteration
				}
				if rec.returned.Load() {
					rec.afterS.Add(1)
				}
				if rc.asyncFail && id%2 == 0 {
					// an asynchronous checker reports its verdict as the body hands over: whether this iteration ends up
					// failed or not is a race the scenario accepts - but every report of it must tell the same story
					sig := make(chan struct{})
					go func() { <-sig; t.Fail() }()
					close(sig)
				}
			}
		}
		return func(t *f1testing.T) {
			if rec.priming.Load() {
				return
			}
			id, _ := strconv.ParseInt(t.Iteration, 10, 64)
			hv, ok := handles.Load(t)
			if !ok {
				hv, _ = handles.LoadOrStore(t, nh.Add(1))
			}
			h := hv.(int64)
			keptMu.Lock()
			kept = append(kept, keptID{t.Iteration, id})
			keptMu.Unlock()
			if rec.returned.Load() {
				rec.afterS.Add(1)
			}
			failedAtEntry := int64(0)
			if t.Failed() {
				failedAtEntry = 1
			}
			live.Add(1)
			rec.add(rEv{K: "start", A: id, B: h, C: rec.us(), D: failedAtEntry})
			out := int64(0)
			if rc.failEvery > 0 && (id+seed)%int64(rc.failEvery) == 0 {
				out = 1
			}
			pan := rc.panicEvery > 0 && (id+seed)%int64(rc.panicEvery) == 1
			if pan {
				out = 1
			}
			helper := rc.helperEvery > 0 && (id+seed)%int64(rc.helperEvery) == 0
			if helper {
				out = 1
			}
			t.Cleanup(func() {
				if rc.cfg.CleanupUs > 0 {
					time.Sleep(time.Duration(rc.cfg.CleanupUs) * time.Microsecond)
				}
				rec.add(rEv{K: "cleanup", A: id, B: h, C: rec.us()})
			})
			defer func() {
				live.Add(-1)
				if rec.returned.Load() {
					rec.afterE.Add(1)
				}
				idEnd := "same-id"
				if t.Iteration != strconv.FormatInt(id, 10) {
					idEnd = "now-" + t.Iteration
				}
				rec.add(rEv{K: "end", A: id, B: h, C: rec.us(), D: out, S2: idEnd})
			}()
			if rc.failEarly && out == 1 && !pan {
				t.Fail()
			}
			if rc.stageTimers {
				t.Time("connect", func() {})
				t.Time("", func() {}) // an unnamed step of a table-driven scenario
			}
			if rc.lateFailUs > 0 {
				bodyDone := make(chan struct{})
				defer close(bodyDone)
				go func() {
					<-bodyDone
					time.Sleep(time.Duration(rc.lateFailUs) * time.Microsecond)
					t.Fail() // an asynchronous check reporting after its iteration is over
				}()
			}
			if rc.cfg.Rendezvous {
				// `arrived` counts the bodies waiting here AT THE SAME TIME: the rendezvous completes only when `conc` of
				// them overlap (a body that gives up leaves again)
				if arrived.Add(1) >= int64(rc.cfg.Conc) {
					rvOnce.Do(func() { close(rvDone) })
				}
				select {
				case <-rvDone:
				case <-time.After(1500 * time.Millisecond):
					arrived.Add(-1)
				}
				time.Sleep(2 * time.Millisecond)
			}
			if rc.cfg.Blockers > 0 && blocked.Add(1) <= int64(rc.cfg.Blockers) {
				<-release
			} else if os.Getenv("VERIF_FAST") != "" {
				time.Sleep(200 * time.Microsecond)
			} else if rc.bodyFixedUs > 0 {
				time.Sleep(time.Duration(rc.bodyFixedUs) * time.Microsecond)
			} else if rc.bodyMaxUs > 0 {
				time.Sleep(time.Duration((id*7919+seed*31)%int64(rc.bodyMaxUs)) * time.Microsecond)
			}
			if helper {
				// the documented way to run part of an iteration in another goroutine: its panic is that iteration's failure
				done := make(chan struct{}, 1)
				go func() {
					defer f1testing.CheckResults(t, done)
					switch id % 3 {
					case 0:
						panic("helper goroutine: planned panic")
					case 1:
						panic(fmt.Errorf("helper goroutine: planned error %d", id))
					default:
						var mp map[string]int
						mp["x"] = 1 // runtime error
					}
				}()
				<-done
				return
			}
			if pan {
				panic("planned panic")
			}
			if out == 1 {
				if id%2 == 0 && !rc.failEarly {
					t.FailNow() // the stopping way of failing: the iteration is failed all the same
				}
				t.Fail()
			}
		}
	}
	logger := slog.New(&rHandler{rec: rec})
	out := ui.NewOutput(logger, ui.NewDiscardPrinter(), false, false)
	sr := simpleRun{Scenario: rc.scnName, Concurrency: rc.cfg.Conc, MaxIter: uint64(rc.cfg.MaxIter), MaxDuration: time.Duration(rc.cfg.MaxDurUs) * time.Microsecond,
		WaitTimeout: time.Duration(rc.cfg.WaitUs) * time.Microsecond, Metrics: m, Output: out, Opts: rc.opts}
	var inst *f1.F1
	if rc.cli != nil {
		name := rc.scnName
		if name == "" {
			name = "scn"
		}
		scn := f1testing.ScenarioFn(fn)
		if rc.combined {
			// the recording scenario as the middle component of a combined one
			quiet := func(*f1testing.T) f1testing.RunFn { return func(*f1testing.T) {} }
			scn = f1.CombineScenarios(quiet, fn, quiet)
		}
		inst = f1.New().WithLogger(logger).Add(name, scn)
		if rc.primer != nil {
			// an EARLIER run on the same F1 instance, same sub-command, other flags (all tolerances set): the run under
			// observation must behave as if it were the first
			rec.priming.Store(true)
			_ = inst.ExecuteWithArgs(rc.primer)
			rec.priming.Store(false)
			rec.t0 = time.Now()
		}
	}
	ctxRun, cancel := context.WithCancel(context.Background())
	defer cancel()
	rec.cancelFn = cancel
	if rc.cfg.CancelUs > 0 {
		go func() {
			time.Sleep(time.Duration(rc.cfg.CancelUs) * time.Microsecond)
			rec.add(rEv{K: "cancel", C: rec.us()})
			if rc.cli != nil {
				// what a user's Ctrl-C is: the run's signal context turns it into the cancellation (asynchronously, so
				// there is no instant from which the harness KNOWS the context to be done)
				_ = syscall.Kill(os.Getpid(), syscall.SIGINT)
				return
			}
			cancel()
			rec.add(rEv{K: "cancelret", C: rec.us()}) // the context is done from here on, whatever the clocks say
		}()
	}
	g0, _ := leakedF1Goroutines()
	type doRes struct {
		res *run.Result
		mm  *metrics.Metrics
		err error
	}
	doneCh := make(chan doRes, 1)
	var cliErr error
	go func() {
		if rc.cli != nil {
			name := rc.scnName
			if name == "" {
				name = "scn"
			}
			args := []string{"run", rc.cli[0]}
			if rc.cli[0] != "file" {
				args = append(args, name)
			}
			args = append(args, rc.cli[1:]...)
			if rc.cli[0] != "file" {
				if !rc.cliOmitConc {
					args = append(args, "--concurrency", strconv.Itoa(rc.cfg.Conc))
				}
				args = append(args, "--max-duration", (time.Duration(rc.cfg.MaxDurUs) * time.Microsecond).String())
				if rc.cfg.MaxIter > 0 {
					args = append(args, "--max-iterations", strconv.FormatInt(rc.cfg.MaxIter, 10))
				}
			}
			if rc.cliLimit > 0 {
				args = append(args, "--max-iterations", strconv.FormatInt(rc.cliLimit, 10))
			}
			cliErr = inst.ExecuteWithArgs(args)
			doneCh <- doRes{nil, metrics.Instance(), nil}
			return
		}
		r1, m1, e1 := sr.doTrigger(ctxRun, fn, trig)
		doneCh <- doRes{r1, m1, e1}
	}()
	// watchdog: every run must return by max-duration + completion timeout (+ generous slack)
	bound := time.Duration(rc.cfg.MaxDurUs+rc.cfg.WaitUs)*time.Microsecond + 3*time.Second
	released := false
	var dr doRes
	select {
	case dr = <-doneCh:
	case <-time.After(bound):
		buf := make([]byte, 1<<20)
		n := runtime.Stack(buf, true)
		where := ""
		for _, g := range bytes.Split(buf[:n], []byte("\n\n")) {
			if bytes.Contains(g, []byte("run.(*Run).Do")) {
				lines := strings.Split(string(g), "\n")
				if len(lines) > 9 {
					lines = lines[:9]
				}
				where = strings.Join(lines, " | ")
			}
		}
		rec.add(rEv{K: "noreturn", C: rec.us(), S: where})
		close(release) // let the deliberately blocked bodies go so that the process can continue
		released = true
		select {
		case dr = <-doneCh:
		case <-time.After(10 * time.Second):
			// an observation of the real code, not a harness failure: the trace ends with `noreturn` and no `ret`
			rec.add(rEv{K: "noreturn", C: rec.us(), S: "still not returned 10 s after every blocked body was released"})
			rec.mu.Lock()
			tr.Ev = append([]rEv{}, rec.ev...)
			rec.mu.Unlock()
			return tr
		}
	}
	res, mm, err := dr.res, dr.mm, dr.err
	if rc.cliLimit > 0 && cliErr != nil {
		rec.mu.Lock()
		started := len(rec.ev) > 0
		rec.mu.Unlock()
		if !started {
			tr.skip = true // refused before anything ran (what the unchanged command line does with the flag)
			if !released {
				close(release)
			}
			return tr
		}
	}
	rec.returned.Store(true)
	tret := rec.us()
	if err != nil {
		tr.Err = "do: " + err.Error()
		if !released {
			close(release)
		}
		return tr
	}
	{
		// ids the scenario kept: each still reads as what it read as when the scenario was handed it
		changed, total, first := int64(0), int64(0), ""
		note := func(raw string, id int64) {
			total++
			if raw != strconv.FormatInt(id, 10) {
				changed++
				if first == "" {
					first = fmt.Sprintf("kept-%d-now-%s", id, raw)
				}
			}
		}
		if rc.cfg.Light {
			n := int(lightN.Load())
			if n > len(lightIDs) {
				n = len(lightIDs)
			}
			for k := 0; k < n; k++ {
				note(lightRaw[k], lightIDs[k])
			}
		} else {
			keptMu.Lock()
			for _, k := range kept {
				note(k.raw, k.id)
			}
			keptMu.Unlock()
		}
		rec.add(rEv{K: "idskept", A: changed, B: total, S2: first})
	}
	if rc.cfg.Light {
		n := int(lightN.Load())
		if n > len(lightIDs) {
			n = len(lightIDs)
		}
		got := append([]int64{}, lightIDs[:n]...)
		rec.add(rEv{K: "invocations", A: lightN.Load()}) // how many times the iteration function ran (whatever ids it saw)
		sort.Slice(got, func(a, b int) bool { return got[a] < got[b] })
		for k := 0; k < n; {
			j := k
			for j+1 < n && got[j+1] == got[j]+1 {
				j++
			}
			rec.add(rEv{K: "idrange", A: got[k], B: got[j], D: int64(j - k + 1)})
			k = j + 1
		}
	}
	var snap progress.Snapshot
	flags := ""
	if rc.cli != nil {
		// the command line hands back an error only; the counts are those of the summary it logged
		rec.mu.Lock()
		for _, e := range rec.ev {
			if e.K == "summary" {
				snap.SuccessfulIterationDurations.Count, snap.FailedIterationDurations.Count, snap.DroppedIterationCount = uint64(e.A), uint64(e.B), uint64(e.D)
			}
		}
		rec.mu.Unlock()
		if cliErr != nil {
			flags += "failed;err=" + cliErr.Error() + ";"
		}
	} else {
		snap = res.Snapshot()
		if res.Failed() {
			flags += "failed;"
		}
		if e := res.Error(); e != nil {
			flags += "err=" + e.Error() + ";"
		}
	}
	select {
	case <-rvDone:
		rec.add(rEv{K: "rv", A: 1})
	default:
		rec.add(rEv{K: "rv", A: 0})
	}
	verdict := "passed"
	if strings.HasPrefix(flags, "failed;") {
		verdict = "failed"
	}
	rec.add(rEv{K: "ret", A: int64(snap.SuccessfulIterationDurations.Count), B: int64(snap.FailedIterationDurations.Count),
		D: int64(snap.DroppedIterationCount), C: tret, S: flags, S2: verdict})
	// exported metrics, flattened; the harness checks each series' label SET (keys and static pairing)
	if fams, err := mm.Registry.Gather(); err == nil {
		for _, f := range fams {
			if !strings.HasPrefix(f.GetName(), "form3_loadtest_") {
				continue // the process-wide registry also carries the Go runtime collectors
			}
			for _, mt := range f.GetMetric() {
				got := map[string]string{}
				for _, l := range mt.GetLabel() {
					got[l.GetName()] = l.GetValue()
				}
				if rc.stageTimers && f.GetName() != "form3_loadtest_setup" && got["stage"] != "iteration" {
					continue // the scenario's own stage timers (t.Time): not iteration samples
				}
				fam := int64(0)
				scnName := rc.scnName
				if scnName == "" {
					scnName = "scn"
				}
				want := map[string]string{"test": scnName, "result": got["result"]}
				if f.GetName() == "form3_loadtest_setup" {
					fam = 1
				} else {
					want["stage"] = "iteration"
				}
				for k, v := range rc.labels {
					want[k] = v
				}
				bad := int64(0)
				if len(got) != len(want) {
					bad = 1
				}
				for k, v := range want {
					if got[k] != v {
						bad = 1
					}
				}
				res := int64(3)
				switch got["result"] {
				case "success":
					res = 0
				case "fail":
					res = 1
				case "dropped":
					res = 2
				}
				rec.add(rEv{K: "metric", A: int64(mt.GetSummary().GetSampleCount()), B: fam, C: res, D: bad, S: got["result"], S2: labelString(got)})
			}
		}
	}
	time.Sleep(80 * time.Millisecond)
	if rc.slowProgressUs > 0 {
		time.Sleep(time.Duration(rc.slowProgressUs) * time.Microsecond) // whatever the sink still holds comes out within this
	}
	if !released {
		close(release) // let deliberately blocked bodies finish
	}
	time.Sleep(40 * time.Millisecond)
	g1, first := leakedF1Goroutines()
	leaked := g1 - g0
	if leaked < 0 {
		leaked = 0
	}
	var envLeft []string
	for _, k := range rc.envKeys {
		if v, ok := os.LookupEnv(k); ok {
			envLeft = append(envLeft, k+"="+v)
		}
	}
	rec.add(rEv{K: "after", A: rec.afterS.Load(), B: rec.afterE.Load(), C: rec.afterP.Load(), D: int64(leaked), S: first, S2: strings.Join(envLeft, ";")})
	rec.mu.Lock()
	tr.Ev = append([]rEv{}, rec.ev...)
	rec.mu.Unlock()
	return tr
}

func labelString(l map[string]string) string {
	var ks []string
	for k, v := range l {
		ks = append(ks, k+"="+v)
	}
	sort.Strings(ks)
	return strings.Join(ks, ",")
}

// curRec: the recorder of the run in progress (runs are sequential within one driver process); lets scripted rate
// functions built by the cases log their own evaluations
var curRec atomic.Pointer[rRec]

func rateTrigger(rates *api.Rates, wrap func(api.RateFunction) api.RateFunction) *api.Trigger {
	return &api.Trigger{Trigger: api.NewIterationWorker(rates.IterationDuration, wrap(rates.Rate)), DryRun: rates.Rate, Duration: rates.Duration}
}

func buildCases(c *ctx) []rCase {
	ms := int64(1000)
	var cases []rCase
	add := func(rc rCase) {
		if rc.cli != nil {
			rc.cfg.WaitUs = 10_000_000 // the command line's fixed completion timeout
		}
		if rc.cfg.WaitUs == 0 {
			rc.cfg.WaitUs = 2_000_000
		}
		if rc.cfg.MetricsRuns == 0 {
			rc.cfg.MetricsRuns = 1
		}
		if rc.cfg.StageIntervals == nil {
			rc.cfg.StageIntervals = i64s{}
		}
		cases = append(cases, rc)
	}
	constantCase := func(name, rate string, intervalUs int64, conc int, maxIter int64, durUs int64, dist string) rCase {
		return rCase{cfg: rCfg{Name: name, Mode: "constant", RateMode: true, Conc: conc, MaxIter: maxIter, MaxDurUs: durUs, IntervalUs: intervalUs,
			Args: rate + " " + dist},
			build: func(w func(api.RateFunction) api.RateFunction) (*api.Trigger, error) {
				r, err := constant.CalculateConstantRate(0, rate, dist)
				if err != nil {
					return nil, err
				}
				return rateTrigger(r, w), nil
			}}
	}
	// --- limits: ceiling and exact N (C03), in several modes
	for _, lim := range []int64{1, 2, 7, 17, 64} {
		conc := []int{1, 2, 16, 100}[c.rng.Intn(4)]
		rc := constantCase(fmt.Sprintf("limit-constant-%d", lim), fmt.Sprintf("%d/20ms", 1+lim*int64(1+c.rng.Intn(4))), 20*ms, conc, lim, 3000*ms, "none")
		rc.bodyMaxUs = 300
		rc.failEvery = 3
		add(rc)
		ru := rCase{cfg: rCfg{Name: fmt.Sprintf("limit-users-%d", lim), Mode: "users", Conc: conc, MaxIter: lim, MaxDurUs: 3000 * ms},
			build: func(func(api.RateFunction) api.RateFunction) (*api.Trigger, error) {
				return users.Rate().New(users.Rate().Flags)
			},
			bodyMaxUs: 200, failEvery: 4, panicEvery: 5}
		add(ru)
	}
	// --- many busy workers crossing the limit together (C03 ceiling / exact N under contention)
	for k := 0; k < c.pick(600, 3000); k++ {
		lim := int64(300 + c.rng.Intn(900))
		ru := rCase{cfg: rCfg{Name: "limit-race-users", Mode: "users", Conc: 32, MaxIter: lim, MaxDurUs: 5000 * ms, Light: true},
			build: func(func(api.RateFunction) api.RateFunction) (*api.Trigger, error) {
				return users.Rate().New(users.Rate().Flags)
			}}
		add(ru)
	}
	// --- ample concurrency + limit: nothing may be reported dropped (C02 limit-silent clause)
	for k := 0; k < c.pick(2, 8); k++ {
		lim := int64(5 + c.rng.Intn(40))
		rc := constantCase("limit-silent", fmt.Sprintf("%d/15ms", 3+c.rng.Intn(6)), 15*ms, 64, lim, 4000*ms, "none")
		rc.cfg.Ample = true
		add(rc)
	}
	// --- duration endings, drops, cadence (C02, C05, C09)
	for _, iv := range []int64{2 * ms, 10 * ms, 50 * ms} {
		rate := fmt.Sprintf("%d/%dms", 2+c.rng.Intn(6), iv/ms)
		rc := constantCase("duration-constant", rate, iv, 1+c.rng.Intn(3), 0, 350*ms, "none")
		rc.bodyMaxUs = int(iv) * 2 // slow bodies: ticks supersede pending work -> drops
		rc.failEvery = 5
		add(rc)
	}
	{
		rc := constantCase("duration-regular-dist", "20/300ms", 100*ms, 8, 0, 650*ms, "regular")
		rc.bodyMaxUs = 2000
		add(rc)
		rc2 := constantCase("duration-random-dist", "15/200ms", 100*ms, 4, 0, 450*ms, "random")
		rc2.bodyMaxUs = 30000
		add(rc2)
	}
	// the pool's stop goroutine is slow: requests pending when triggering stopped must still be in the result
	for _, lim := range []int64{0, 12} {
		rc := constantCase("slow-stopper", "40/10ms", 10*ms, 1, lim, 120*ms, "none")
		rc.bodyMaxUs = 3000
		rc.cfg.StopDelayUs = 60 * ms
		add(rc)
	}
	// cancellation while setup is still running: nothing may be requested afterwards
	{
		rc := constantCase("cancel-during-setup", "5/10ms", 10*ms, 3, 0, 3000*ms, "none")
		rc.cfg.CancelUs = 50 * ms
		rc.cfg.SetupUs = 300 * ms
		add(rc)
		for _, conc := range []int{3, 16, 64} {
			ru := rCase{cfg: rCfg{Name: "cancel-during-setup-users", Mode: "users", Conc: conc, MaxDurUs: 3000 * ms, CancelUs: 50 * ms, SetupUs: 300 * ms,
				StopDelayUs: int64(conc/16) * 3 * ms},
				build: func(func(api.RateFunction) api.RateFunction) (*api.Trigger, error) {
					return users.Rate().New(users.Rate().Flags)
				}, bodyMaxUs: 1000}
			add(ru)
		}
	}
	// a pool that takes longer than the tick interval to start (many workers, short interval)
	{
		rc := constantCase("slow-pool-start", "1/2ms", 2*ms, 3000, 0, 80*ms, "none")
		add(rc)
	}
	// the trigger goroutine starved for a few intervals around one tick (a loaded load-generator): the cadence bound
	// holds afterwards too - the skipped ticks are not made up for, and the period is still the interval
	for k := 0; k < c.pick(3, 8); k++ {
		iv := []int64{10, 20, 25, 50}[k%4]
		rc := constantCase("stalled-trigger", fmt.Sprintf("3/%dms", iv), iv*ms, 6, 0, 700*ms, "none")
		rc.cfg.StallEval = 2 + k%3
		rc.cfg.StallUs = iv*1000*2 + iv*1000*int64(1+c.rng.Intn(8))/10 // 2.1 .. 2.8 intervals
		rc.bodyMaxUs = 2000
		add(rc)
	}
	// a staged STEP profile (0 for 400 ms, then 40 per tick) with the trigger goroutine stalled for 500 ms early on: the
	// profile follows real time - once the stall is over (and the one tick that was already waiting has been served) it
	// is past its step, both through the API and through the command line
	for _, viaCmd := range []bool{false, true} {
		rs := rCase{cfg: rCfg{Name: "staged-step-stalled", Mode: "staged", RateMode: true, Conc: 50, MaxDurUs: 1200 * ms, IntervalUs: 20 * ms,
			Args: "0s:0,400ms:0,0s:40,3s:40", StallEval: 2, StallUs: 500 * ms, StepAtUs: 400 * ms, StepVal: 40},
			build: func(w func(api.RateFunction) api.RateFunction) (*api.Trigger, error) {
				r, err := staged.CalculateStagedRate(0, 20*time.Millisecond, "0s:0,400ms:0,0s:40,3s:40", "none", nil)
				if err != nil {
					return nil, err
				}
				return rateTrigger(r, w), nil
			}}
		if viaCmd {
			rs.cfg.Name = "cli-" + rs.cfg.Name
			rs.cfg.WaitUs = 10_000 * ms
			rs.cli = []string{"staged", "--stages", "0s:0,400ms:0,0s:40,3s:40", "--iterationFrequency", "20ms", "--distribution", "none"}
		}
		add(rs)
	}
	// a configured rate (scripted, with zeros) spread over sub-ticks: the CONFIGURED rate is still evaluated at most
	// once per configured interval - the sub-tick function must not come back for more
	for _, dist := range []string{"regular", "random"} {
		for _, iv := range []int64{300, 500} {
			dist, iv := dist, iv
			script := []int{6, 0, 0, 9, 0, 3, 0, 0}
			rc := rCase{cfg: rCfg{Name: "scripted-" + dist, Mode: "constant", RateMode: true, Conc: 8, MaxDurUs: 2200 * ms, IntervalUs: 100 * ms,
				UIntervalUs: iv * ms, Args: fmt.Sprintf("script %v per %dms, %s", script, iv, dist)},
				build: func(w func(api.RateFunction) api.RateFunction) (*api.Trigger, error) {
					var n atomic.Int64
					var first atomic.Int64
					under := func(time.Time) int {
						k := n.Add(1)
						if r := curRec.Load(); r != nil {
							now := r.us()
							first.CompareAndSwap(0, now)
							// d = ordinal of this evaluation of the configured rate, c = time since the first one
							r.add(rEv{K: "ueval", A: int64(script[int(k-1)%len(script)]), C: now - first.Load(), D: k})
						}
						return script[int(k-1)%len(script)]
					}
					d, fn, err := api.NewDistribution(api.DistributionType(dist), time.Duration(iv)*time.Millisecond, under, nil)
					if err != nil {
						return nil, err
					}
					return rateTrigger(&api.Rates{IterationDuration: d, Rate: fn}, w), nil
				}, bodyMaxUs: 2000}
			add(rc)
		}
	}
	// a slow start (most of an interval passes between the first evaluation and the ticker) followed by a slow first
	// tick: the second and third evaluations still keep their distance
	for k := 0; k < 3; k++ {
		iv := []int64{20, 50, 100}[k]
		rc := constantCase("slow-start-slow-first-tick", fmt.Sprintf("2/%dms", iv), iv*ms, 4, 0, 12*iv*ms, "none")
		rc.cfg.StallFirstUs = iv * 1000 * int64(7+k) / 10 // 0.7 .. 0.9 intervals
		rc.cfg.StallEval = 2
		rc.cfg.StallUs = iv * 1000 * 6 / 10
		rc.bodyMaxUs = 1000
		add(rc)
	}
	// a profile that is zero in the middle: zero-rate ticks are requests too (they supersede pending work)
	add(rCase{cfg: rCfg{Name: "staged-zero-middle", Mode: "staged", RateMode: true, Conc: 1, MaxDurUs: 2000 * ms, IntervalUs: 20 * ms, Args: "0s:6,60ms:0,80ms:0,100ms:6"},
		build: func(w func(api.RateFunction) api.RateFunction) (*api.Trigger, error) {
			r, err := staged.CalculateStagedRate(0, 20*time.Millisecond, "0s:6,60ms:0,80ms:0,100ms:6", "none", nil)
			if err != nil {
				return nil, err
			}
			return rateTrigger(r, w), nil
		}, bodyMaxUs: 30000})
	// a profile that dips BELOW zero (negative stage targets are accepted): a negative tick requests nothing
	add(rCase{cfg: rCfg{Name: "staged-negative-middle", Mode: "staged", RateMode: true, Conc: 3, MaxDurUs: 2000 * ms, IntervalUs: 20 * ms, Args: "0s:5,60ms:-5,80ms:-5,100ms:5"},
		build: func(w func(api.RateFunction) api.RateFunction) (*api.Trigger, error) {
			r, err := staged.CalculateStagedRate(0, 20*time.Millisecond, "0s:5,60ms:-5,80ms:-5,100ms:5", "none", nil)
			if err != nil {
				return nil, err
			}
			return rateTrigger(r, w), nil
		}, bodyMaxUs: 3000})
	// bodies that time their own stages with t.Time - one of them unnamed - on the process-wide metrics instance: the
	// iteration series still holds exactly the result's counts
	{
		rc := constantCase("stage-timers", "6/10ms", 10*ms, 4, 60, 2000*ms, "none")
		rc.bodyMaxUs = 500
		rc.failEvery = 3
		rc.stageTimers = true
		add(rc)
	}
	// a late report: a goroutine of iteration N marks the handle failed well after N has returned and long before the
	// same worker's next iteration starts (one worker, 400 ms between requests, report at +25 ms): N+1 starts clean
	{
		rc := constantCase("late-report", "1/400ms", 400*ms, 1, 0, 1500*ms, "none")
		rc.bodyMaxUs = 1000
		rc.lateFailUs = 25000
		add(rc)
	}
	// negative replay of the RunLifecycle wedge (Mut_RunLifecycle_StopNoWait): the first progress tick (1 s) is due when the
	// run ends; it is parked until main holds Summary's read lock. If Stop() really waits this is unrealisable.
	{
		rc := constantCase("progress-wedge", "2/100ms", 100*ms, 2, 0, 1030*ms, "none")
		rc.cfg.Wedge = true
		add(rc)
	}
	// the limit is reached while the last iterations hang: max-duration / cancel must still end the run
	{
		rc := constantCase("limit-then-blocked", "6/10ms", 10*ms, 3, 2, 300*ms, "none")
		rc.cfg.Blockers = 2
		rc.cfg.WaitUs = 200 * ms
		add(rc)
		rc2 := constantCase("limit-then-blocked-cancel", "6/10ms", 10*ms, 3, 2, 5000*ms, "none")
		rc2.cfg.Blockers = 2
		rc2.cfg.WaitUs = 200 * ms
		rc2.cfg.CancelUs = 150 * ms
		add(rc2)
		ru := rCase{cfg: rCfg{Name: "limit-then-blocked-users", Mode: "users", Conc: 3, MaxIter: 2, MaxDurUs: 300 * ms, Blockers: 2, WaitUs: 200 * ms},
			build: func(func(api.RateFunction) api.RateFunction) (*api.Trigger, error) {
				return users.Rate().New(users.Rate().Flags)
			}}
		add(ru)
	}
	// --- the same kinds of run THROUGH THE REAL COMMAND LINE (F1.ExecuteWithArgs: flag parsing, run_cmd's option
	// plumbing, the signal context): what a user of the f1 binary gets; the completion timeout is the CLI's 10 s
	{
		tolerant := []string{"--max-duration", "60ms", "--max-failures", "100000", "--max-failures-rate", "100", "--ignore-dropped"}
		primers := map[string][]string{
			"constant": append([]string{"run", "constant", "scn", "-r", "7/10ms", "--distribution", "regular", "--jitter", "10", "-c", "7", "--max-iterations", "9"}, tolerant...),
			"users":    append([]string{"run", "users", "scn", "-c", "2", "--max-iterations", "5"}, tolerant...),
			"staged": append([]string{"run", "staged", "scn", "--stages", "0s:30,40ms:30", "--iterationFrequency", "10ms", "--distribution", "regular",
				"--jitter", "10", "-c", "7"}, tolerant...),
		}
		nCLI := 0
		viaCLI := func(rc rCase, sub string, flags ...string) rCase {
			rc.cfg.Name = "cli-" + rc.cfg.Name
			rc.cfg.WaitUs = 10_000 * ms
			rc.cli = append([]string{sub}, flags...)
			// two of three are not the first run on their F1 instance, every other one runs as the middle component of a
			// combined scenario
			nCLI++
			if (nCLI+int(c.seed))%3 != 0 || rc.cfg.CancelUs > 0 {
				rc.primer = primers[sub]
				if rc.cfg.CancelUs > 0 {
					// (a limit left over from the earlier run would end this one before its Ctrl-C)
					var p []string
					for k := 0; k < len(rc.primer); k++ {
						if rc.primer[k] == "--max-iterations" {
							k++
							continue
						}
						p = append(p, rc.primer[k])
					}
					rc.primer = p
				}
			}
			rc.combined = (nCLI+int(c.seed))%2 == 0
			return rc
		}
		usersCase := func(name string, conc int, maxIter, durUs int64) rCase {
			return rCase{cfg: rCfg{Name: name, Mode: "users", Conc: conc, MaxIter: maxIter, MaxDurUs: durUs},
				build: func(func(api.RateFunction) api.RateFunction) (*api.Trigger, error) {
					return users.Rate().New(users.Rate().Flags)
				}}
		}
		lim := int64(3 + c.rng.Intn(40))
		rate := fmt.Sprintf("%d/20ms", 1+lim*int64(1+c.rng.Intn(3)))
		rc := constantCase("limit-constant", rate, 20*ms, []int{1, 3, 16}[c.rng.Intn(3)], lim, 3000*ms, "none")
		rc.bodyMaxUs, rc.failEvery = 300, 3
		add(viaCLI(rc, "constant", "--rate", rate, "--distribution", "none"))
		ru := usersCase("limit-users", 1+c.rng.Intn(12), int64(2+c.rng.Intn(60)), 3000*ms)
		ru.bodyMaxUs, ru.failEvery, ru.panicEvery = 200, 4, 5
		add(viaCLI(ru, "users"))
		ru2 := usersCase("limit-race-users", 32, int64(300+c.rng.Intn(900)), 5000*ms)
		ru2.cfg.Light = true
		add(viaCLI(ru2, "users"))
		rate = fmt.Sprintf("%d/25ms", 1+c.rng.Intn(6))
		rd := constantCase("duration-constant", rate, 25*ms, 1+c.rng.Intn(3), 0, 350*ms, "none")
		rd.bodyMaxUs = 2000
		add(viaCLI(rd, "constant", "-r", rate, "--distribution", "none"))
		rd2 := constantCase("duration-regular-dist", "20/300ms", 100*ms, 8, 0, 650*ms, "regular")
		add(viaCLI(rd2, "constant", "-r", "20/300ms", "--distribution", "regular"))
		ud := usersCase("users-duration", 1+c.rng.Intn(8), 0, 250*ms)
		ud.bodyMaxUs, ud.failEvery, ud.panicEvery = 4000, 6, 11
		add(viaCLI(ud, "users"))
		// Ctrl-C
		ri := constantCase("interrupt-constant", "6/10ms", 10*ms, 3, 0, 3000*ms, "none")
		ri.cfg.CancelUs = int64(30000 + c.rng.Intn(200000))
		ri.bodyMaxUs = 15000
		add(viaCLI(ri, "constant", "-r", "6/10ms", "--distribution", "none"))
		ui2 := usersCase("interrupt-users", 4, 0, 3000*ms)
		ui2.cfg.CancelUs = int64(30000 + c.rng.Intn(100000))
		ui2.bodyMaxUs = 5000
		add(viaCLI(ui2, "users"))
		// failed setup; dropped work; every worker usable
		rs := constantCase("setup-fail-"+[]string{"failnow", "panic-runtime", "require"}[c.rng.Intn(3)], "5/10ms", 10*ms, 2, 0, 300*ms, "none")
		rs.cfg.SetupFail = true
		rs.cfg.SetupMode = strings.TrimPrefix(rs.cfg.Name, "setup-fail-")
		add(viaCLI(rs, "constant", "-r", "5/10ms", "--distribution", "none"))
		rs2 := rs
		rs2.cfg.Name = "setup-fail-with-tolerances"
		add(viaCLI(rs2, "constant", "-r", "5/10ms", "--distribution", "none", "--max-failures", "5", "--max-failures-rate", "10"))
		// Ctrl-C while a setup is running that then fails: still a failed run
		rsi := constantCase("interrupt-during-failing-setup", "5/10ms", 10*ms, 2, 0, 2000*ms, "none")
		rsi.cfg.SetupFail, rsi.cfg.SetupMode, rsi.cfg.SetupUs, rsi.cfg.CancelUs = true, []string{"fail", "failnow", "panic-error"}[c.rng.Intn(3)], 70*ms, 20*ms
		add(viaCLI(rsi, "constant", "-r", "5/10ms", "--distribution", "none"))
		// --concurrency left to its documented default (100) after an earlier run on the instance that set it: 100 it is -
		// not more in flight, and all 100 usable
		{
			ud := usersCase("default-concurrency-users", 100, 0, 300*ms)
			ud.bodyMaxUs = 20000
			ud = viaCLI(ud, "users")
			ud.cliOmitConc, ud.combined = true, false
			ud.primer = append([]string{"run", "users", "scn", "-c", "130"}, tolerant...)
			add(ud)
			ur := usersCase("default-concurrency-rendezvous-users", 100, 0, 400*ms)
			ur.cfg.Rendezvous = true
			ur = viaCLI(ur, "users")
			ur.cliOmitConc, ur.combined = true, false
			ur.primer = append([]string{"run", "users", "scn", "-c", "3"}, tolerant...)
			add(ur)
		}
		// a failing run with a profile requested: the profile is written, the run is still a failed run
		{
			rpf := constantCase("drops-profiled", "5/20ms", 20*ms, 1, 0, 300*ms, "none")
			rpf.bodyMaxUs = 30000
			add(viaCLI(rpf, "constant", "-r", "5/20ms", "--distribution", "none", "--memprofile", filepath.Join(c.out, "mem.prof")))
		}
		// the run ends while its periodic progress function is still writing to a slow sink (the 1 s tick, the run over
		// at 1.03 s, the sink takes 90 ms): the run has stopped its progress runner - and so waited for it - before it
		// goes on to the summary and returns
		{
			rp := constantCase("slow-progress-sink", "2/50ms", 50*ms, 2, 0, 1030*ms, "none")
			rp.slowProgressUs = 90 * ms
			rp.bodyMaxUs = 1000
			add(rp)
			// ... and a sink that stalls for longer than any timeout on the way to it
			rp2 := constantCase("stalled-progress-sink", "2/50ms", 50*ms, 2, 0, 1030*ms, "none")
			rp2.slowProgressUs = 650 * ms
			rp2.bodyMaxUs = 1000
			add(rp2)
		}
		// every iteration passes, a cleanup registered by the setup fails: a failed run, and its summary says so
		for k, api := range []bool{false, true} {
			rt := constantCase("teardown-fails", "4/20ms", 20*ms, 3, 0, 200*ms, "none")
			rt.teardownMode = []string{"fail", "panic-error", "failnow", "require", "panic-string"}[(k+int(c.seed))%5]
			rt.cfg.TeardownFail = true
			rt.bodyMaxUs = 2000
			if api {
				add(rt)
			} else {
				add(viaCLI(rt, "constant", "-r", "4/20ms", "--distribution", "none"))
				// ... also when failure tolerances are configured: they are about iterations
				rt2 := rt
				rt2.cfg.Name = "teardown-fails-with-tolerances"
				add(viaCLI(rt2, "constant", "-r", "4/20ms", "--distribution", "none", "--max-failures", "5", "--max-failures-rate", "10"))
			}
		}
		// a rate per a FRACTIONAL number of units ticks at exactly that interval (2/2.9ms is not 2/2ms)
		for _, api := range []bool{false, true} {
			rf := constantCase("fractional-interval", "2/2.9ms", 2900, 4, 0, 300*ms, "none")
			if api {
				add(rf)
			} else {
				add(viaCLI(rf, "constant", "-r", "2/2.9ms", "--distribution", "none"))
			}
		}
		// a limit far below the concurrency, slow iterations, several requests per tick: the surplus requests cannot start
		// solely because of the limit - nothing is reported dropped
		for _, api := range []bool{false, true} {
			rl := constantCase("limit-below-concurrency-slow", "3/100ms", 100*ms, 10, 2, 2000*ms, "none")
			rl.bodyFixedUs = 450 * int(ms)
			if api {
				add(rl)
			} else {
				add(viaCLI(rl, "constant", "-r", "3/100ms", "--distribution", "none"))
			}
		}
		rdrop := constantCase("drops", "5/20ms", 20*ms, 1, 0, 300*ms, "none")
		rdrop.bodyMaxUs = 30000
		add(viaCLI(rdrop, "constant", "-r", "5/20ms", "--distribution", "none"))
		conc := []int{2, 5, 16}[c.rng.Intn(3)]
		rate = fmt.Sprintf("%d/400ms", conc+1)
		rv := constantCase("rendezvous-constant", rate, 400*ms, conc, 0, 300*ms, "none")
		rv.cfg.Rendezvous = true
		add(viaCLI(rv, "constant", "-r", rate, "--distribution", "none"))
		rvu := usersCase("rendezvous-users", conc, 0, 300*ms)
		rvu.cfg.Rendezvous = true
		add(viaCLI(rvu, "users"))
		// a staged profile
		rst := rCase{cfg: rCfg{Name: "staged", Mode: "staged", RateMode: true, Conc: 6, MaxDurUs: 2000 * ms, IntervalUs: 20 * ms, Args: "0s:4,150ms:10,150ms:0"},
			build: func(w func(api.RateFunction) api.RateFunction) (*api.Trigger, error) {
				r, err := staged.CalculateStagedRate(0, 20*time.Millisecond, "0s:4,150ms:10,150ms:0", "none", nil)
				if err != nil {
					return nil, err
				}
				return rateTrigger(r, w), nil
			}, bodyMaxUs: 3000, failEvery: 7}
		add(viaCLI(rst, "staged", "--stages", "0s:4,150ms:10,150ms:0", "--iterationFrequency", "20ms", "--distribution", "none"))
	}
	// slow cleanups: the handle is busy until its iteration's cleanups have run
	for _, mode := range []string{"users", "constant"} {
		if mode == "users" {
			ru := rCase{cfg: rCfg{Name: "slow-cleanup-users", Mode: "users", Conc: 8, MaxDurUs: 250 * ms, CleanupUs: 3000},
				build: func(func(api.RateFunction) api.RateFunction) (*api.Trigger, error) {
					return users.Rate().New(users.Rate().Flags)
				}, bodyMaxUs: 300}
			add(ru)
		} else {
			rc := constantCase("slow-cleanup-constant", "30/10ms", 10*ms, 8, 0, 250*ms, "none")
			rc.cfg.CleanupUs = 3000
			rc.bodyMaxUs = 300
			add(rc)
		}
	}
	// staged / ramp / gaussian
	add(rCase{cfg: rCfg{Name: "staged", Mode: "staged", RateMode: true, Conc: 6, MaxDurUs: 2000 * ms, IntervalUs: 20 * ms, Args: "0s:4,150ms:10,150ms:0"},
		build: func(w func(api.RateFunction) api.RateFunction) (*api.Trigger, error) {
			r, err := staged.CalculateStagedRate(0, 20*time.Millisecond, "0s:4,150ms:10,150ms:0", "none", nil)
			if err != nil {
				return nil, err
			}
			return rateTrigger(r, w), nil
		}, bodyMaxUs: 3000, failEvery: 7})
	add(rCase{cfg: rCfg{Name: "ramp", Mode: "ramp", RateMode: true, Conc: 5, MaxDurUs: 2000 * ms, IntervalUs: 25 * ms, Args: "2/25ms->9/25ms over 300ms"},
		build: func(w func(api.RateFunction) api.RateFunction) (*api.Trigger, error) {
			r, err := ramp.CalculateRampRate("2/25ms", "9/25ms", "none", 300*time.Millisecond, 0)
			if err != nil {
				return nil, err
			}
			return rateTrigger(r, w), nil
		}, bodyMaxUs: 8000})
	add(rCase{cfg: rCfg{Name: "gaussian", Mode: "gaussian", RateMode: true, Conc: 8, MaxDurUs: 400 * ms, IntervalUs: 20 * ms, Args: "volume 600 repeat 1s"},
		build: func(w func(api.RateFunction) api.RateFunction) (*api.Trigger, error) {
			r, err := gaussian.CalculateGaussianRate(600, 0, time.Second, 20*time.Millisecond, 500*time.Millisecond, 200*time.Millisecond, "", "none")
			if err != nil {
				return nil, err
			}
			return rateTrigger(r, w), nil
		}, bodyMaxUs: 5000, failEvery: 9})
	// users with duration ending
	add(rCase{cfg: rCfg{Name: "users-duration", Mode: "users", Conc: 1 + c.rng.Intn(8), MaxDurUs: 250 * ms},
		build: func(func(api.RateFunction) api.RateFunction) (*api.Trigger, error) {
			return users.Rate().New(users.Rate().Flags)
		},
		bodyMaxUs: 4000, failEvery: 6, panicEvery: 11})
	// --- cancellation at random instants (incl. very early), setup failure, completion timeout
	for k := 0; k < c.pick(3, 10); k++ {
		rc := constantCase("cancel-constant", "6/10ms", 10*ms, 3, 0, 3000*ms, "none")
		rc.cfg.CancelUs = int64(1 + c.rng.Intn(200000))
		if k == 0 {
			rc.cfg.CancelUs = 50
		}
		rc.bodyMaxUs = 15000
		add(rc)
	}
	{
		ru := rCase{cfg: rCfg{Name: "cancel-users", Mode: "users", Conc: 4, MaxDurUs: 3000 * ms, CancelUs: int64(20000 + c.rng.Intn(100000))},
			build: func(func(api.RateFunction) api.RateFunction) (*api.Trigger, error) {
				return users.Rate().New(users.Rate().Flags)
			}, bodyMaxUs: 5000}
		add(ru)
		for _, mode := range []string{"failnow", "fail", "panic-error", "panic-string", "panic-runtime", "require"} {
			rs := constantCase("setup-fail-"+mode, "5/10ms", 10*ms, 2, 0, 300*ms, "none")
			rs.cfg.SetupFail = true
			rs.cfg.SetupMode = mode
			add(rs)
		}
		// cancelled while a setup is running that then fails: still a failed run
		rsc := constantCase("cancel-during-failing-setup", "5/10ms", 10*ms, 2, 0, 2000*ms, "none")
		rsc.cfg.SetupFail, rsc.cfg.SetupMode, rsc.cfg.SetupUs, rsc.cfg.CancelUs = true, []string{"fail", "failnow", "panic-string", "require"}[c.rng.Intn(4)], 60*ms, 20*ms
		add(rsc)
		rb := constantCase("completion-timeout", "4/10ms", 10*ms, 4, 0, 150*ms, "none")
		rb.cfg.Blockers = 2
		rb.cfg.WaitUs = 200 * ms
		add(rb)
		rb2 := rCase{cfg: rCfg{Name: "completion-timeout-users", Mode: "users", Conc: 3, MaxDurUs: 120 * ms, Blockers: 1, WaitUs: 150 * ms},
			build: func(func(api.RateFunction) api.RateFunction) (*api.Trigger, error) {
				return users.Rate().New(users.Rate().Flags)
			}, bodyMaxUs: 1000}
		add(rb2)
	}
	// --- all workers usable (C04 lower bound): rendezvous of `conc` bodies
	for _, conc := range []int{2, 5, 16, 40} {
		// (requests per tick: exactly conc, or a few more - not a multiple of conc)
		rv := constantCase("rendezvous-constant", fmt.Sprintf("%d/400ms", conc+[]int{0, 1, 2, conc/2 + 1}[(conc+int(c.seed))%4]), 400*ms, conc, 0, 300*ms, "none") // one tick only: the requests of THAT tick must occupy every worker
		rv.cfg.Rendezvous = true
		add(rv)
		ru := rCase{cfg: rCfg{Name: "rendezvous-users", Mode: "users", Conc: conc, MaxDurUs: 300 * ms, Rendezvous: true},
			build: func(func(api.RateFunction) api.RateFunction) (*api.Trigger, error) {
				return users.Rate().New(users.Rate().Flags)
			}}
		add(ru)
	}
	// --- consecutive runs on one metrics instance with static labels (C16, C01 metrics clause)
	labelSets := []map[string]string{{}, {"a": "1", "a_b": "2", "ab": "3"}, {"l1": "v1", "l2": "v2", "l3": "v3", "l4": "v4", "l5": "v5"},
		{"zone": "z", "app": "zone", "b": "app"}, {"x": "y", "y": "x"},
		{"k01": "a", "k02": "b", "k03": "c", "k04": "d", "k05": "e", "k06": "f", "k07": "g", "k08": "h", "k09": "i", "k10": "j"}}
	for k, ls := range labelSets {
		if c.quick() && k > 2 {
			break
		}
		rc := constantCase("metrics-runs", "40/10ms", 10*ms, 12, int64(150+k), 2000*ms, "none")
		rc.bodyMaxUs = 300
		rc.failEvery = 2
		rc.labels = ls
		rc.cfg.Labels = labelString(ls)
		rc.cfg.MetricsRuns = 3
		add(rc)
	}
	// failures reported by a goroutine of the scenario at the very moment the body returns: the exported metric and
	// the result still classify each iteration the same way
	{
		ru := rCase{cfg: rCfg{Name: "async-fail-users", Mode: "users", Conc: 4, MaxIter: 60000, MaxDurUs: 5000 * ms, Light: true},
			build: func(func(api.RateFunction) api.RateFunction) (*api.Trigger, error) {
				return users.Rate().New(users.Rate().Flags)
			}, asyncFail: true}
		add(ru)
	}
	// part of the body runs in a helper goroutine guarded by testing.CheckResults(t, done) and panics there
	for _, mode := range []string{"users", "constant"} {
		var rc rCase
		if mode == "users" {
			rc = rCase{cfg: rCfg{Name: "helper-goroutine-users", Mode: "users", Conc: 2, MaxIter: 40, MaxDurUs: 3000 * ms},
				build: func(func(api.RateFunction) api.RateFunction) (*api.Trigger, error) {
					return users.Rate().New(users.Rate().Flags)
				}}
		} else {
			rc = constantCase("helper-goroutine-constant", "4/10ms", 10*ms, 3, 40, 3000*ms, "none")
		}
		rc.bodyMaxUs = 500
		rc.helperEvery = 2
		add(rc)
	}
	// consecutive runs of DIFFERENT scenarios on one metrics instance: nothing of the other scenario's run is exported
	{
		rc := constantCase("metrics-runs-mixed-scenarios", "40/10ms", 10*ms, 12, 140, 2000*ms, "none")
		rc.bodyMaxUs = 300
		rc.failEvery = 3
		rc.labels = labelSets[1]
		rc.cfg.Labels = labelString(labelSets[1])
		rc.cfg.MetricsRuns = 3
		rc.mixNames = true
		add(rc)
	}
	// a run whose setup fails, between two ordinary runs on the same metrics instance: it exports no iteration
	// samples of its predecessor
	for k := 0; k < 2; k++ {
		rc := constantCase("metrics-runs-setup-fails", "40/10ms", 10*ms, 12, int64(120+k), 2000*ms, "none")
		rc.bodyMaxUs = 300
		rc.failEvery = 3
		rc.labels = labelSets[k]
		rc.cfg.Labels = labelString(labelSets[k])
		rc.cfg.MetricsRuns = 3
		rc.failSetupOnRun = 2 + k
		add(rc)
	}
	// --- file mode: stages strictly sequential, environment per stage, users stage followed by another stage
	fileCase := func(name, yaml string, nstages int, keys []string, stageEnv []string, maxDurUs int64, conc int, bodyUs int) {
		yy := yaml
		var cliArgs []string
		if strings.HasPrefix(name, "cli-") {
			// through the command line: `run file <path>` reads the file itself (it stays until the driver's output
			// directory goes)
			p := filepath.Join(c.out, fmt.Sprintf("cli-cfg-%d.yaml", len(cases)))
			if err := os.WriteFile(p, []byte(yy), 0o600); err == nil {
				cliArgs = []string{"file", p}
			}
		}
		lim := int64(0)
		if strings.Contains(name, "limit-flag") {
			lim = 3
		}
		var ivs i64s
		if strings.Contains(name, "inherited-frequency") {
			ivs = i64s{100 * ms, 100 * ms}
		}
		add(rCase{cli: cliArgs, cliLimit: lim, cfg: rCfg{StageIntervals: ivs, Name: name, Mode: "file", Conc: conc, MaxDurUs: maxDurUs, FileStages: nstages, Light: strings.Contains(name, "stress"),
			Args: strings.ReplaceAll(yy, "\n", "\\n")},
			build: func(func(api.RateFunction) api.RateFunction) (*api.Trigger, error) {
				p := filepath.Join(c.out, fmt.Sprintf("cfg-%d.yaml", time.Now().UnixNano()))
				if err := os.WriteFile(p, []byte(yy), 0o600); err != nil {
					return nil, err
				}
				defer os.Remove(p)
				b := file.Rate(ui.NewDiscardOutput())
				if err := b.Flags.Parse([]string{p}); err != nil {
					return nil, err
				}
				return b.New(b.Flags)
			}, bodyMaxUs: bodyUs, envKeys: keys, stageEnv: stageEnv, failEvery: map[bool]int{false: 8, true: 2}[name == "file-overlap"],
			failEarly: name == "file-overlap",
			opts:      func(o *options.RunOptions) {}})
	}
	fileCase("file-constant-users-constant", `scenario: scn
limits:
  max-duration: 5s
  concurrency: 6
  max-iterations: 0
  ignore-dropped: true
default:
  mode: constant
  distribution: none
  jitter: 0
  parameters:
    VERIF_DEF: dflt
stages:
- duration: 150ms
  rate: 3/20ms
  parameters:
    VERIF_STAGE: one
    VERIF_A: a1
- duration: 160ms
  mode: users
  concurrency: 3
  parameters:
    VERIF_STAGE: two
    VERIF_FAST: "1"
- duration: 150ms
  rate: 2/20ms
`, 3, []string{"VERIF_STAGE", "VERIF_A", "VERIF_DEF", "VERIF_FAST"},
		[]string{"VERIF_STAGE=one;VERIF_A=a1", "VERIF_STAGE=two;VERIF_FAST=1", "VERIF_DEF=dflt"}, 5000*ms, 6, 60000)
	fileCase("cli-file-constant-users-constant", `scenario: scn
limits:
  max-duration: 5s
  concurrency: 5
  max-iterations: 0
  ignore-dropped: true
default:
  mode: constant
  distribution: none
  jitter: 0
  parameters:
    VERIF_DEF: dflt
stages:
- duration: 150ms
  rate: 3/20ms
  parameters:
    VERIF_STAGE: one
    VERIF_A: a1
- duration: 160ms
  mode: users
  concurrency: 3
  parameters:
    VERIF_STAGE: two
    VERIF_FAST: "1"
- duration: 150ms
  rate: 2/20ms
`, 3, []string{"VERIF_STAGE", "VERIF_A", "VERIF_DEF", "VERIF_FAST"},
		[]string{"VERIF_STAGE=one;VERIF_A=a1", "VERIF_STAGE=two;VERIF_FAST=1", "VERIF_DEF=dflt"}, 5000*ms, 5, 60000)
	// two staged stages that take their tick interval from the default section, the first one shorter than that interval:
	// the second still ticks at the default's interval
	for _, pre := range []string{"", "cli-"} {
		fileCase(pre+"file-inherited-frequency", `scenario: scn
limits:
  max-duration: 5s
  concurrency: 8
  max-iterations: 0
  ignore-dropped: true
default:
  mode: staged
  distribution: none
  jitter: 0
  iteration-frequency: 100ms
stages:
- duration: 60ms
  stages: 0s:2,60ms:2
- duration: 700ms
  stages: 0s:3,700ms:3
`, 2, nil, nil, 5000*ms, 8, 1000)
	}
	// the limits section's max-duration is SHORTER than the stages: the run stops at it
	fileCase("cli-file-short-max-duration", `scenario: scn
limits:
  max-duration: 300ms
  concurrency: 3
  max-iterations: 0
  ignore-dropped: true
default:
  mode: constant
  distribution: none
  jitter: 0
stages:
- duration: 2s
  rate: 3/20ms
`, 1, nil, nil, 300*ms, 3, 1000)
	// --max-iterations on the command line of a config-file run: refused (the file has its own limits section) - or else
	// it is the limit
	fileCase("cli-file-limit-flag", `scenario: scn
limits:
  max-duration: 400ms
  concurrency: 3
  max-iterations: 0
  ignore-dropped: true
default:
  mode: constant
  distribution: none
  jitter: 0
stages:
- duration: 300ms
  rate: 3/20ms
`, 1, nil, nil, 400*ms, 3, 500)
	// two users stages in a row, then a rate stage whose last iterations are still running when triggering stops
	for _, pre := range []string{"", "cli-"} {
		fileCase(pre+"file-users-users-constant", `scenario: scn
limits:
  max-duration: 5s
  concurrency: 4
  max-iterations: 0
  ignore-dropped: true
default:
  mode: constant
  distribution: none
  jitter: 0
stages:
- duration: 200ms
  mode: users
  concurrency: 2
  parameters:
    VERIF_STAGE: one
    VERIF_FAST: "1"
- duration: 220ms
  mode: users
  concurrency: 3
  parameters:
    VERIF_STAGE: two
    VERIF_FAST: "1"
- duration: 160ms
  rate: 3/20ms
  parameters:
    VERIF_STAGE: three
`, 3, []string{"VERIF_STAGE", "VERIF_FAST"}, []string{"VERIF_STAGE=one;VERIF_FAST=1", "VERIF_STAGE=two;VERIF_FAST=1", "VERIF_STAGE=three"}, 5000*ms, 4, 70000)
	}
	fileCase("cli-file-limit", `scenario: scn
limits:
  max-duration: 5s
  concurrency: 4
  max-iterations: 23
  ignore-dropped: true
default:
  mode: constant
  distribution: none
  jitter: 0
stages:
- duration: 100ms
  rate: 3/20ms
- duration: 2s
  mode: users
  concurrency: 3
`, 2, nil, nil, 5000*ms, 4, 500)
	// iterations still in flight when the next stage builds its pool (bodies up to 140 ms, stages of 100 ms),
	// every second one failing from its first statement: each is reported by its own outcome
	for k := 0; k < c.pick(2, 6); k++ {
		fileCase("file-overlap", `scenario: scn
limits:
  max-duration: 5s
  concurrency: 4
  max-iterations: 0
  ignore-dropped: true
default:
  mode: constant
  distribution: none
  jitter: 0
stages:
- duration: 100ms
  rate: 2/20ms
- duration: 100ms
  rate: 2/20ms
- duration: 100ms
  mode: users
  concurrency: 4
- duration: 100ms
  rate: 2/20ms
`, 4, nil, []string{"", "", "", ""}, 5000*ms, 4, 140000)
	}
	// the caller cancels while the stage's trigger goroutine is in the middle of a rate evaluation: the stage's
	// parameters stay in the environment until that goroutine is done
	fileCase("file-cancel-while-evaluating", `scenario: scn
limits:
  max-duration: 5s
  concurrency: 4
  max-iterations: 0
  ignore-dropped: true
default:
  mode: constant
  distribution: none
  jitter: 0
stages:
- duration: 300ms
  rate: 2/20ms
  parameters:
    VERIF_STAGE: one
    VERIF_A: a1
- duration: 300ms
  rate: 2/20ms
  parameters:
    VERIF_STAGE: two
`, 2, []string{"VERIF_STAGE", "VERIF_A"}, []string{"VERIF_STAGE=one;VERIF_A=a1", "VERIF_STAGE=two"}, 5000*ms, 4, 2000)
	cases[len(cases)-1].cfg.CancelAtEval = 4
	cases[len(cases)-1].cfg.StallUs = 120 * ms
	// max-duration equal to a stage boundary: triggering ends inside the 20 ms pause between two stages, the stage
	// after the boundary (users: its workers start iterations at once) must not begin
	for _, nxt := range []string{"  mode: users\n  concurrency: 4\n", "  rate: 4/10ms\n"} {
		fileCase("file-deadline-in-gap", `scenario: scn
limits:
  max-duration: 200ms
  concurrency: 4
  max-iterations: 0
  ignore-dropped: true
default:
  mode: constant
  distribution: none
  jitter: 0
stages:
- duration: 100ms
  rate: 2/20ms
- duration: 100ms
  rate: 2/20ms
- duration: 300ms
`+nxt, 3, nil, []string{"", "", ""}, 200*ms, 4, 3000)
		cases[len(cases)-1].cfg.StageEndDelayAt = 2
		cases[len(cases)-1].cfg.StageEndDelayUs = 150 * ms
	}
	fileCase("file-cut-short", `scenario: scn
limits:
  max-duration: 220ms
  concurrency: 4
  max-iterations: 0
  ignore-dropped: true
default:
  mode: constant
  distribution: none
  jitter: 0
stages:
- duration: 150ms
  rate: 2/20ms
  parameters:
    VERIF_STAGE: one
- duration: 400ms
  rate: 2/20ms
  parameters:
    VERIF_STAGE: two
    VERIF_B: b2
`, 2, []string{"VERIF_STAGE", "VERIF_B"}, []string{"VERIF_STAGE=one", "VERIF_STAGE=two;VERIF_B=b2"}, 220*ms, 4, 3000)
	fileCase("file-limit", `scenario: scn
limits:
  max-duration: 5s
  concurrency: 3
  max-iterations: 23
  ignore-dropped: true
default:
  mode: constant
  distribution: none
  jitter: 0
stages:
- duration: 100ms
  rate: 4/20ms
- duration: 100ms
  mode: users
  concurrency: 2
- duration: 2s
  rate: 5/20ms
`, 3, nil, []string{"", "", ""}, 5000*ms, 3, 2000)
	// stage boundary under load with a run-wide limit: ids stay gapless and exactly N across pools
	for k := 0; k < c.pick(6, 40); k++ {
		lim := 300000 + c.rng.Intn(100000)
		fileCase("file-stress-limit", fmt.Sprintf(`scenario: scn
limits:
  max-duration: 5s
  concurrency: 16
  max-iterations: %d
  ignore-dropped: true
default:
  mode: constant
  distribution: none
  jitter: 0
stages:
- duration: %dms
  rate: 4000/2ms
- duration: 31ms
  rate: 4000/2ms
- duration: 33ms
  rate: 3000/2ms
- duration: 30ms
  rate: 4000/2ms
- duration: 27ms
  rate: 2000/1ms
- duration: 34ms
  rate: 4000/2ms
- duration: 29ms
  rate: 3000/2ms
- duration: 32ms
  rate: 4000/2ms
- duration: 3s
  mode: users
  concurrency: 8
`, lim, 30+c.rng.Intn(20)), 9, []string{"VERIF_FAST"}, []string{"", "", "", "", "", "", "", "", ""}, 5000*ms, 16, 300)
	}
	return cases
}

func init() {
	register("runs", func(c *ctx) error {
		w, err := newNDJSON(filepath.Join(c.out, "runs.ndjson"))
		if err != nil {
			return err
		}
		defer w.close()
		cases := buildCases(c)
		part, parts := 0, 1
		if p := c.extra["part"]; p != "" {
			fmt.Sscanf(p, "%d/%d", &part, &parts)
		}
		only := c.extra["only"]
		n := 0
		for i, rc := range cases {
			if i%parts != part {
				continue
			}
			if only != "" && !strings.Contains(rc.cfg.Name, only) {
				continue
			}
			for k, v := range map[string]string{} {
				_ = k
				_ = v
			}
			m := metrics.NewInstance(prometheus.NewRegistry(), true, rc.labels)
			if rc.stageTimers {
				m = metrics.Instance() // what T.Time records into (initialised in main like f1.New() does)
			}
			for run := 0; run < rc.cfg.MetricsRuns; run++ {
				rc.cfg.RunIndex = run
				if rc.mixNames {
					rc.scnName = fmt.Sprintf("scn-%d", run%2) // a different scenario than the previous run's
				}
				if rc.failSetupOnRun > 0 {
					rc.cfg.SetupFail = rc.failSetupOnRun == run+1
					rc.cfg.SetupMode = "failnow"
				}
				for _, k := range rc.envKeys {
					os.Unsetenv(k)
				}
				tr := runOne(c, rc, m)
				if tr.skip {
					continue
				}
				w.write(tr)
				n++
			}
		}
		fmt.Println("runs:", n)
		return nil
	})
}
