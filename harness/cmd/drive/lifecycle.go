package main

import (
	"bufio"
	"context"
	"encoding/json"
	"errors"
	"fmt"
	"os"
	"path/filepath"
	"strconv"
	"strings"
	"sync"
	"sync/atomic"
	"time"

	"github.com/prometheus/client_golang/prometheus"
	"github.com/stretchr/testify/assert"

	"github.com/form3tech-oss/f1/v2/internal/envsettings"
	"github.com/form3tech-oss/f1/v2/internal/metrics"
	"github.com/form3tech-oss/f1/v2/internal/options"
	"github.com/form3tech-oss/f1/v2/internal/run"
	"github.com/form3tech-oss/f1/v2/internal/trigger/api"
	"github.com/form3tech-oss/f1/v2/internal/trigger/constant"
	"github.com/form3tech-oss/f1/v2/internal/trigger/users"
	"github.com/form3tech-oss/f1/v2/internal/ui"
	"github.com/form3tech-oss/f1/v2/pkg/f1"
	"github.com/form3tech-oss/f1/v2/pkg/f1/scenarios"
	f1testing "github.com/form3tech-oss/f1/v2/pkg/f1/testing"
)

// Model-based replay of Lifecycle behaviours (spec/Lifecycle.tla) on the REAL Run.Do.
// A behaviour is the spec's `log`: "P" entries give the program of each user function, "E" entries
// the observable events the real code must produce in exactly that order, "R" the result.
type lcEntry struct {
	T string   `json:"t"`
	F string   `json:"f"`
	I int      `json:"i"`
	C int      `json:"c"`
	P []string `json:"p"`
}

type lcBehaviour struct {
	NComp int       `json:"ncomp"`
	NIter int       `json:"niter"`
	Log   []lcEntry `json:"log"`
}

type lcResult struct {
	Idx      int       `json:"idx"`
	Mode     string    `json:"mode"`
	Match    bool      `json:"match"`
	Expected []lcEntry `json:"expected"`
	Observed []lcEntry `json:"observed"`
	Variants []string  `json:"variants"`
	Note     string    `json:"note,omitempty"`
	Ms       float64   `json:"ms"`
}

type lcKey struct {
	f    string
	i, c int
}

type lcRun struct {
	mu          sync.Mutex
	progs       map[lcKey][]string
	observed    []lcEntry
	nextK       map[lcKey]int // owner -> number of cleanups registered so far
	variants    []string
	vseed       int
	stickyPanic int                    // -1, or the one way every panic of this behaviour is raised
	handles     map[lcKey]*f1testing.T // (f,i) -> handle the first component saw
	handleNote  string
}

// sameHandle checks C20's handle clause: all components of one setup / one iteration get the same handle.
func (r *lcRun) sameHandle(f string, i int, t *f1testing.T) {
	r.mu.Lock()
	defer r.mu.Unlock()
	k := lcKey{f, i, 0}
	if h, ok := r.handles[k]; ok {
		if h != t && r.handleNote == "" {
			r.handleNote = fmt.Sprintf("components of %s[%d] were given different handles", f, i)
		}
		return
	}
	r.handles[k] = t
}

func (r *lcRun) event(f string, i, c int) {
	r.mu.Lock()
	r.observed = append(r.observed, lcEntry{T: "E", F: f, I: i, C: c, P: []string{}})
	r.mu.Unlock()
}

func (r *lcRun) pick(kind string, n int) int {
	r.mu.Lock()
	defer r.mu.Unlock()
	r.vseed = (r.vseed*1103515245 + 12345) & 0x7fffffff
	v := (r.vseed >> 8) % n
	r.variants = append(r.variants, kind+strconv.Itoa(v))
	return v
}

type lcOther struct{ a, b int }

func (r *lcRun) doFail(t *f1testing.T) {
	switch r.pick("fail", 6) {
	case 5:
		// the work is split over two helper goroutines that report on ONE channel, each guarded by CheckResults(t, done);
		// the function waits for both and carries on; the quick one is fine, the slow one panics - which marks the
		// failure without stopping the function that waited (a `fail` step, not an ending)
		done := make(chan struct{})
		go func() {
			defer f1testing.CheckResults(t, done)
		}()
		go func() {
			defer f1testing.CheckResults(t, done)
			time.Sleep(3 * time.Millisecond)
			panic(errors.New("planned panic in the slower of two helper goroutines"))
		}()
		<-done
		<-done
	case 0:
		t.Fail()
	case 1:
		t.Error(errors.New("planned failure"))
	case 2:
		t.Errorf("planned failure %d", 1)
	case 3:
		assert.Equal(t, 1, 2, "planned failed assertion")
	default:
		assert.True(t, false)
	}
}

func (r *lcRun) doFailNow(t *f1testing.T) {
	switch r.pick("failnow", 7) {
	case 5:
		// stopping from inside a timed stage stops the whole function, not just the stage
		t.Time("stage", func() { t.FailNow() })
	case 6:
		t.Time("stage", func() { t.Require().Equal(1, 2) })
	case 0:
		t.FailNow()
	case 1:
		t.Fatal(errors.New("planned fatal"))
	case 2:
		t.Fatalf("planned fatal %s", "x")
	case 3:
		t.Require().Equal(1, 2)
	default:
		t.Require().NoError(errors.New("planned"))
	}
}

// a panic value that cannot be compared with == (a by-value struct error with a slice field)
type lcUncomparable struct{ fields []string }

func (e lcUncomparable) Error() string { return "planned uncomparable error" }

func (r *lcRun) doPanic(t *f1testing.T) {
	v := r.pick("panic", 13)
	// every other behaviour panics the same way each time: the same worker recovers the same kind of value repeatedly
	if r.stickyPanic >= 0 {
		v = r.stickyPanic
	}
	switch v {
	case 11:
		panic([]byte("planned panic with a byte slice"))
	case 12:
		panic(lcUncomparable{fields: []string{"a", "b"}})
	case 9:
		t.Time("stage", func() { panic(errors.New("planned panic inside a timed stage")) })
	case 10:
		t.Time("stage", func() { var m map[string]int; m["x"] = 1 })
	case 0:
		panic(errors.New("planned panic error"))
	case 1:
		panic("planned panic string")
	case 2:
		panic(lcOther{1, 2})
	case 3:
		panic(42)
	case 4:
		var m map[string]int
		m["x"] = 1
	case 5:
		var s []int
		idx := 3
		_ = s[idx]
	case 6:
		var fn func()
		fn()
	case 7:
		z := 0
		_ = 1 / z
	default:
		panic(fmt.Errorf("wrapped: %w", errors.New("inner")))
	}
}

// exec performs the program of function (f,i,c) on handle t; owner identifies whose cleanups
// "reg" registers (setup: {"sc",0}, iteration i: {"ic",i}).
func (r *lcRun) exec(f string, i, c int, t *f1testing.T, ownerF string, ownerI int) {
	r.mu.Lock()
	prog, ok := r.progs[lcKey{f, i, c}]
	r.mu.Unlock()
	if !ok {
		return // the spec says this function does not run; the recorded event will not match
	}
	t.StandardLogger().Info("step", "level", 7, "fn", f)
	for _, st := range prog {
		switch st {
		case "reg":
			r.mu.Lock()
			r.nextK[lcKey{ownerF, ownerI, 0}]++
			kk := r.nextK[lcKey{ownerF, ownerI, 0}]
			r.mu.Unlock()
			t.Cleanup(func() {
				r.event(ownerF, ownerI, kk)
				r.exec(ownerF, ownerI, kk, t, "", 0)
			})
		case "regn":
			// a cleanup registering another cleanup: its own execution is outside the statement (not logged)
			t.Cleanup(func() {})
		case "fail":
			r.doFail(t)
		case "failnow":
			r.doFailNow(t)
		case "panic":
			r.doPanic(t)
		case "ret":
			return
		}
	}
}

func lcTrigger(mode string, n int) (*api.Trigger, error) {
	if mode == "users" {
		return users.Rate().New(users.Rate().Flags)
	}
	b := constant.Rate()
	if err := b.Flags.Set("rate", fmt.Sprintf("%d/200ms", n+1)); err != nil {
		return nil, err
	}
	if err := b.Flags.Set("distribution", "none"); err != nil {
		return nil, err
	}
	return b.New(b.Flags)
}

func lcReplay(idx int, b lcBehaviour, mode string) lcResult {
	res := lcResult{Idx: idx, Mode: mode}
	r := &lcRun{progs: map[lcKey][]string{}, nextK: map[lcKey]int{}, vseed: idx*7919 + 13, handles: map[lcKey]*f1testing.T{}, stickyPanic: -1}
	if idx%2 == 1 {
		r.stickyPanic = (idx / 2) % 13
	}
	for _, e := range b.Log {
		switch e.T {
		case "P":
			r.progs[lcKey{e.F, e.I, e.C}] = e.P
		case "E", "R":
			if e.P == nil {
				e.P = []string{}
			}
			res.Expected = append(res.Expected, e)
		}
	}
	comps := make([]f1testing.ScenarioFn, b.NComp)
	for ci := range comps {
		c := ci + 1
		comps[ci] = func(t *f1testing.T) f1testing.RunFn {
			r.event("s", 0, c)
			r.sameHandle("s", 0, t)
			r.exec("s", 0, c, t, "sc", 0)
			return func(t *f1testing.T) {
				it, _ := strconv.Atoi(t.Iteration)
				r.event("b", it, c)
				r.sameHandle("b", it, t)
				r.exec("b", it, c, t, "ic", it)
			}
		}
	}
	var fn f1testing.ScenarioFn
	if b.NComp == 1 && idx%2 == 0 {
		fn = comps[0]
	} else {
		fn = f1.CombineScenarios(comps...)
	}
	scn := scenarios.New().Add(&scenarios.Scenario{Name: "lc", ScenarioFn: fn})
	reps := 1
	if b.NComp > 1 {
		reps = 2 // the same combined ScenarioFn is set up again in a second run of the same process
	}
	for rep := 0; rep < reps; rep++ {
		if rep > 0 {
			if !res.Match {
				return res
			}
			r.mu.Lock()
			r.observed, r.nextK, r.handles, r.variants = nil, map[lcKey]int{}, map[lcKey]*f1testing.T{}, nil
			r.mu.Unlock()
			res.Mode = mode + "+rerun"
		}
		lcOnce(&res, r, scn, b, mode)
	}
	return res
}

var lcReplays atomic.Int64

func lcOnce(resp *lcResult, r *lcRun, scn *scenarios.Scenarios, b lcBehaviour, mode string) {
	res := *resp
	defer func() { *resp = res }()
	lcOnceInner(&res, r, scn, b, mode)
}

func lcOnceInner(res *lcResult, r *lcRun, scn *scenarios.Scenarios, b lcBehaviour, mode string) lcResult {
	trig, err := lcTrigger(mode, b.NIter)
	if err != nil {
		res.Note = "trigger: " + err.Error()
		return *res
	}
	m := metrics.NewInstance(prometheus.NewRegistry(), true, nil)
	// every other replay runs with a logger that is disabled at every level (a user-supplied quiet logger): what the
	// scenario's failures and panics mean must not depend on whether anybody listens to the log
	out := ui.NewDiscardOutput()
	if lcReplays.Add(1)%2 == 0 {
		out = ui.NewOutput(discardLogger(), ui.NewDiscardPrinter(), false, false)
	}
	// every third replay writes the scenario's log to a file in JSON (F1_LOG_FORMAT=json, not verbose): what the scenario
	// writes to its logger - every function logs a line with an attribute called "level" - is not an event of the run
	settings, verbose := envsettings.Settings{}, true
	if n := lcReplays.Load(); n%3 == 0 {
		verbose = false
		settings.Log = envsettings.Log{Format: "json", FilePath: filepath.Join(os.TempDir(), fmt.Sprintf("verif-lc-%d-%d.log", os.Getpid(), n%7))}
	}
	rn, err := run.NewRun(options.RunOptions{Scenario: "lc", MaxDuration: 20 * time.Second, Concurrency: 1,
		MaxIterations: uint64(b.NIter), Verbose: verbose}, scn, trig, 5*time.Second, settings, m, out)
	if err != nil {
		res.Note = "newrun: " + err.Error()
		return *res
	}
	t0 := time.Now()
	result, err := rn.Do(context.Background())
	res.Ms = float64(time.Since(t0).Microseconds()) / 1000
	if err != nil {
		res.Note = "do: " + err.Error()
		return *res
	}
	snap := result.Snapshot()
	errsSeen := []string{}
	if e := result.Error(); e != nil {
		for _, want := range []string{"setup failed", "teardown failed"} {
			if strings.Contains(e.Error(), want) {
				errsSeen = append(errsSeen, want)
			}
		}
		if len(errsSeen) == 0 {
			errsSeen = append(errsSeen, "other: "+e.Error())
		}
	}
	r.mu.Lock()
	res.Observed = append(append([]lcEntry{}, r.observed...), lcEntry{T: "R", F: "", I: int(snap.SuccessfulIterationDurations.Count),
		C: int(snap.FailedIterationDurations.Count), P: errsSeen})
	res.Variants = r.variants
	r.mu.Unlock()
	// run failed <=> errors or failures (default tolerances)
	wantFailed := len(errsSeen) > 0 || snap.FailedIterationDurations.Count > 0 || snap.DroppedIterationCount > 0
	if result.Failed() != wantFailed {
		res.Note = fmt.Sprintf("Result.Failed()=%v but errors=%v failed=%d", result.Failed(), errsSeen, snap.FailedIterationDurations.Count)
	}
	if r.handleNote != "" && res.Note == "" {
		res.Note = r.handleNote
	}
	a, _ := json.Marshal(res.Expected)
	o, _ := json.Marshal(res.Observed)
	res.Match = string(a) == string(o) && res.Note == ""
	return *res
}

func init() {
	register("lifecycle", func(c *ctx) error {
		f, err := os.Open(c.in)
		if err != nil {
			return err
		}
		defer f.Close()
		start, _ := strconv.Atoi(c.extra["start"])
		out, err := os.OpenFile(filepath.Join(c.out, "lifecycle.ndjson"), os.O_CREATE|os.O_WRONLY|os.O_APPEND, 0o644)
		if err != nil {
			return err
		}
		defer out.Close()
		prog, err := os.OpenFile(filepath.Join(c.out, "lifecycle.progress"), os.O_CREATE|os.O_WRONLY|os.O_TRUNC, 0o644)
		if err != nil {
			return err
		}
		defer prog.Close()
		sc := bufio.NewScanner(f)
		sc.Buffer(make([]byte, 1<<20), 1<<26)
		idx := 0
		n, bad := 0, 0
		for sc.Scan() {
			idx++
			if idx <= start {
				continue
			}
			var b lcBehaviour
			if err := json.Unmarshal(sc.Bytes(), &b); err != nil {
				return fmt.Errorf("behaviour %d: %w", idx, err)
			}
			mode := "users"
			if idx%3 == 0 {
				mode = "constant"
			}
			fmt.Fprintf(prog, "%d\n", idx) // survives a process death: the python side knows which behaviour killed us
			r := lcReplay(idx, b, mode)
			n++
			if !r.Match {
				bad++
			} else {
				r.Expected = nil // keep the output small
				if n%50 != 0 {
					r.Observed = nil
				}
			}
			bs, _ := json.Marshal(r)
			out.Write(append(bs, '\n'))
		}
		fmt.Printf("lifecycle replays: %d mismatches: %d\n", n, bad)
		return sc.Err()
	})
}
