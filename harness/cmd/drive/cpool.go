package main

import (
	"context"
	"fmt"
	"path/filepath"
	"strconv"
	"strings"
	"sync"
	"sync/atomic"

	"github.com/prometheus/client_golang/prometheus"

	"github.com/form3tech-oss/f1/v2/internal/log"
	"github.com/form3tech-oss/f1/v2/internal/metrics"
	"github.com/form3tech-oss/f1/v2/internal/progress"
	"github.com/form3tech-oss/f1/v2/internal/workers"
	"github.com/form3tech-oss/f1/v2/pkg/f1/scenarios"
	f1testing "github.com/form3tech-oss/f1/v2/pkg/f1/testing"
	"github.com/form3tech-oss/f1/v2/verifharness/sched"
)

// cpool: the REAL workers.PoolManager + ContinuousPool (users mode) under the cooperative scheduler. Workers and the
// pool's stop goroutine are f1's own goroutines parked at the cp.* yield points; the harness is the canceller and
// the gate of every body. Each schedule is one F1Run trace (pool_only, mode users) in exact execution order.
type cpCfg struct {
	Workers   int
	MaxIter   uint64
	Cancel    bool   // the canceller may act at a random moment (it always acts when nothing else can move)
	PreCancel bool   // the context is already done when the pool is started
	Policy    string // "" uniform | yield point to starve | "body": bodies are held while anything else can move
}

func runCP(c *ctx, cfg cpCfg, seed int64) rTrace {
	tr := rTrace{Cfg: rCfg{Name: "cpool-coop/" + cfg.Policy, Mode: "users", Conc: cfg.Workers, MaxIter: int64(cfg.MaxIter),
		MaxDurUs: 1_000_000_000, WaitUs: 1_000_000, PoolOnly: true,
		Args: fmt.Sprintf("workers=%d maxiter=%d cancel=%v precancel=%v policy=%s seed=%d", cfg.Workers, cfg.MaxIter, cfg.Cancel, cfg.PreCancel, cfg.Policy, seed)}}
	tr.Par = map[string]any{"n": cfg.Workers, "m": int(cfg.MaxIter), "pre": cfg.PreCancel}
	tr.Cfg.Rendezvous = cfg.Policy == "body" && !cfg.PreCancel && (cfg.MaxIter == 0 || cfg.MaxIter >= uint64(cfg.Workers))
	var mu sync.Mutex
	add := func(e rEv) { mu.Lock(); tr.Ev = append(tr.Ev, e); mu.Unlock() }
	s := sched.New()
	s.WatchForeign = true // workers wait on a start barrier before their first yield point; the stopper announces itself late
	s.Namer = func(point string, who any, seq int) string {
		switch point {
		case "cp.w.started":
			return "w" + strconv.Itoa(seq)
		case "cp.stopper.woken":
			return "stopper"
		}
		return ""
	}
	// the schedule as specification actions (spec/ContinuousPool.tla), derived from hook arrivals and releases by a
	// fixed table (see Trace_ContinuousPool.tla): [action, worker, argument]
	widx := func(name string) int64 { k, _ := strconv.Atoi(strings.TrimPrefix(name, "w")); return int64(k) }
	act := func(a string, w, n int64) { tr.Arr = append(tr.Arr, []any{a, w, n}) } // callers hold mu or the scheduler mutex
	prev := map[string]string{}
	firstStarted := true
	s.OnPoint = func(proc, point string, n int64) {
		mu.Lock()
		defer mu.Unlock()
		q := prev[proc]
		prev[proc] = point
		switch point {
		case "cp.w.started":
			if firstStarted {
				firstStarted = false
				for k := 1; k <= cfg.Workers; k++ {
					act("arrive", int64(k), 0) // nobody passes the start barrier before everybody has arrived
				}
			}
			act("pass", widx(proc), 0)
		case "cp.w.loop":
			act("check", widx(proc), 0) // found the stop flag clear
		case "cp.w.exit":
			if q != "cp.limit" {
				act("check", widx(proc), 1) // found the stop flag set
			}
		case "body":
			act("nextit", widx(proc), n) // was handed iteration id n
		case "cp.limit":
			act("nextit", widx(proc), 0) // was refused an id: the limit
		case "cp.stopper.woken":
			act("swake", 0, 0)
		}
	}
	release := func(proc string) {
		mu.Lock()
		defer mu.Unlock()
		switch prev[proc] {
		case "cp.limit":
			act("limit", widx(proc), 0) // cancels the worker context now
		case "cp.stopper.woken":
			act("sflag", 0, 0)
		case "C.cancel":
			act("cancel", 0, 0)
		case "body":
			act("body", widx(proc), 0)
		}
	}
	stats := &progress.Stats{}
	m := metrics.NewInstance(prometheus.NewRegistry(), true, nil)
	var handles sync.Map
	var nh, live atomic.Int64
	body := func(t *f1testing.T) {
		id, _ := strconv.ParseInt(t.Iteration, 10, 64)
		hv, ok := handles.Load(t)
		if !ok {
			hv, _ = handles.LoadOrStore(t, nh.Add(1))
		}
		h := hv.(int64)
		fa := int64(0)
		if t.Failed() {
			fa = 1
		}
		add(rEv{K: "start", A: id, B: h, D: fa})
		live.Add(1)
		t.Cleanup(func() { add(rEv{K: "cleanup", A: id, B: h}) })
		s.Pause("body", id) // in flight until the scheduler releases it
		live.Add(-1)
		idEnd := "same-id"
		if t.Iteration != strconv.FormatInt(id, 10) {
			idEnd = "now-" + t.Iteration
		}
		add(rEv{K: "end", A: id, B: h, S2: idEnd})
	}
	scn := &scenarios.Scenario{Name: "scn", ScenarioFn: func(t *f1testing.T) f1testing.RunFn { return body }}
	lg := discardLogger()
	as := workers.NewActiveScenario(scn, m, stats, lg, log.NewSlogLogrusLogger(lg))
	as.Setup()
	pm := workers.New(cfg.MaxIter, as)
	ctx, cancel := context.WithCancel(context.Background())
	defer cancel()
	if cfg.PreCancel {
		// the caller's cancel() has returned before triggering begins (e.g. Ctrl-C during a long setup)
		add(rEv{K: "cancel", C: 1})
		cancel()
		add(rEv{K: "cancelret", C: 1})
	}
	add(rEv{K: "setup", A: 1})
	s.Install()
	defer s.Uninstall()
	pool := pm.NewContinuousPool(cfg.Workers)
	pool.Start(ctx)
	started := make(chan struct{}, 1)
	if !cfg.PreCancel {
		go func() {
			s.Register("C")
			started <- struct{}{}
			s.Pause("C.cancel", 0)
			add(rEv{K: "cancel", C: 1})
			cancel()
			add(rEv{K: "cancelret", C: 1})
			s.Exit()
		}()
		<-started
	}
	if err := s.Quiesce(); err != nil {
		tr.Err = err.Error()
		return tr
	}
	rng := newRng(seed)
	var names []string
	rvLogged := false
	for step := 0; step < 4000; step++ {
		if s.AllDone() {
			break
		}
		en := s.Enabled()
		var cand, bodies []string
		for _, n := range en {
			if n == "C" {
				// (in a rendezvous schedule the canceller waits until the pool has been seen at its fullest)
				if cfg.Cancel && rng.Intn(25) == 0 && !(tr.Cfg.Rendezvous && !rvLogged) {
					cand = append(cand, n)
				}
				continue
			}
			if p := s.Proc(n); p != nil && p.Point == "body" {
				bodies = append(bodies, n)
			}
			cand = append(cand, n)
		}
		// "body" policy: bodies are held while anything else can move, so the pool is driven to its fullest
		if cfg.Policy == "body" {
			var others []string
			for _, n := range cand {
				if p := s.Proc(n); p != nil && p.Point != "body" {
					others = append(others, n)
				}
			}
			if len(others) == 0 && len(bodies) > 0 && !rvLogged && tr.Cfg.Rendezvous {
				// nothing but bodies can move: every worker the pool has must be inside one now
				a := int64(0)
				if int(live.Load()) == cfg.Workers {
					a = 1
				}
				add(rEv{K: "rv", A: a, B: live.Load()})
				rvLogged = true
			}
			if len(others) > 0 {
				cand = others
			}
		} else if cfg.Policy != "" {
			var others []string
			for _, n := range cand {
				if p := s.Proc(n); p != nil && p.Point != cfg.Policy {
					others = append(others, n)
				}
			}
			if len(others) > 0 && rng.Intn(10) != 0 {
				cand = others
			}
		}
		if len(cand) == 0 {
			// only the canceller is left (no limit, or every worker is done but the stopper waits for the context)
			for _, n := range en {
				if n == "C" {
					cand = append(cand, n)
				}
			}
		}
		if len(cand) == 0 {
			tr.Err = "deadlock: " + strings.Join(s.Describe(), " ")
			break
		}
		pick := cand[rng.Intn(len(cand))]
		release(pick)
		if _, err := s.Step(pick); err != nil {
			tr.Err = err.Error()
			break
		}
		names = append(names, pick)
	}
	if tr.Err == "" && !s.AllDone() {
		tr.Err = "schedule did not finish: " + strings.Join(s.Describe(), " ")
	}
	if tr.Err == "" {
		done := pm.WaitForCompletion()
		select {
		case <-done:
		case <-afterMs(500):
			add(rEv{K: "noreturn", S: "WaitForCompletion not signalled although every worker finished"})
		}
		tot := stats.Total()
		tr.Started = int64(tot.SuccessfulIterationDurations.Count + tot.FailedIterationDurations.Count)
		add(rEv{K: "ret", A: int64(tot.SuccessfulIterationDurations.Count), B: int64(tot.FailedIterationDurations.Count), D: int64(tot.DroppedIterationCount)})
	}
	if len(names) > 120 {
		names = append(names[:120], "...")
	}
	tr.Cfg.Args += " sched=" + strings.Join(names, ",")
	return tr
}

func init() {
	register("cpool", func(c *ctx) error {
		w, err := newNDJSON(filepath.Join(c.out, "cpool.ndjson"))
		if err != nil {
			return err
		}
		defer w.close()
		policies := []string{"", "cp.stopper.woken", "cp.w.loop", "body", "cp.w.started"}
		n := c.pick(80, 800)
		for k := 0; k < n; k++ {
			cfg := cpCfg{Workers: 1 + c.rng.Intn(4), Policy: policies[k%len(policies)], Cancel: c.rng.Intn(2) == 0, PreCancel: k%7 == 3}
			if c.rng.Intn(3) > 0 {
				cfg.MaxIter = uint64(1 + c.rng.Intn(9))
			}
			if cfg.MaxIter == 0 {
				cfg.Cancel = true // without a limit only cancellation ends the pool
			}
			w.write(runCP(c, cfg, c.seed*100019+int64(k)))
		}
		fmt.Println("cpool schedules:", w.n)
		return nil
	})
}
