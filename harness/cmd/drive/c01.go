package main

import (
	"fmt"
	"path/filepath"
	"strings"
	"time"

	"github.com/form3tech-oss/f1/v2/internal/metrics"
	"github.com/form3tech-oss/f1/v2/internal/options"
	"github.com/form3tech-oss/f1/v2/internal/progress"
	"github.com/form3tech-oss/f1/v2/internal/run"
	"github.com/form3tech-oss/f1/v2/internal/run/views"
	"github.com/form3tech-oss/f1/v2/verifharness/sched"
)

// C01 (pool-independent part): every hook-grain interleaving of recorders (Stats.Record), a
// periodic snapshotter (Result.SnapshotProgress) and the final totals (Result.GetTotals) on the
// REAL progress.Stats + run.Result, enumerated exhaustively by stateless DFS under the cooperative
// scheduler. Each schedule is logged; TLC validates every log against Trace_ProgressStats.
type c01cfg struct {
	NRec, Adds, NSnap int
	Fail              bool // recorders alternate success/fail outcomes
}

type c01trace struct {
	NRec  int     `json:"nrec"`
	Adds  int     `json:"adds"`
	NSnap int     `json:"nsnap"`
	Sched string  `json:"sched"`
	Ev    [][]any `json:"ev"`
	Err   string  `json:"err"`
	Steps int     `json:"steps"`
}

// runC01 executes one schedule: `choices[i]` = index into the enabled set at decision i (0 beyond
// the prefix). It returns the trace and the size of the enabled set at every decision.
func runC01(cfg c01cfg, choices []int) (c01trace, []int) {
	tr := c01trace{NRec: cfg.NRec, Adds: cfg.Adds, NSnap: cfg.NSnap}
	s := sched.New()
	s.NonBlocking = func(string) (sched.State, bool) { return 0, false }
	stats := &progress.Stats{}
	res := run.NewResult(options.RunOptions{Scenario: "s", MaxDuration: time.Second, Concurrency: 1}, views.New(), stats)
	s.Install()
	defer s.Uninstall()
	started := make(chan struct{}, 16)
	spawn := func(name string, body func()) {
		go func() {
			s.Register(name)
			started <- struct{}{}
			s.Pause(name+".start", 0)
			body()
			s.Exit()
		}()
		<-started
	}
	for r := 0; r < cfg.NRec; r++ {
		r := r
		spawn(fmt.Sprintf("r%d", r+1), func() {
			for k := 0; k < cfg.Adds; k++ {
				if k > 0 {
					s.Pause("rec.next", 0)
				}
				o := metrics.SuccessResult
				if cfg.Fail && (r+k)%2 == 1 {
					o = metrics.FailedResult
				}
				stats.Record(o, 1)
			}
		})
	}
	spawn("P", func() {
		for k := 0; k < cfg.NSnap; k++ {
			if k > 0 {
				s.Pause("snap.next", 0)
			}
			res.SnapshotProgress(time.Second)
		}
	})
	spawn("M", func() { res.GetTotals() })
	if err := s.Quiesce(); err != nil {
		tr.Err = err.Error()
		return tr, nil
	}
	var widths []int
	var names []string
	dec := 0
	recDone := func() bool {
		for _, p := range s.Procs() {
			if strings.HasPrefix(p.Name, "r") && p.State != sched.Done {
				return false
			}
		}
		return true
	}
	for !s.AllDone() {
		en := s.Enabled()
		// the final totals are taken only after every worker has exited (run() has returned)
		if !recDone() {
			f := en[:0:0]
			for _, n := range en {
				if n != "M" {
					f = append(f, n)
				}
			}
			en = f
		}
		if len(en) == 0 {
			tr.Err = "deadlock: " + strings.Join(s.Describe(), " ") + fmt.Sprintf(" enabled=%v recDone=%v", s.Enabled(), recDone())
			for _, p := range s.Procs() {
				if p.State == sched.Blocked {
					fmt.Println("BLOCKED-WHY", p.Name, p.Why)
				}
			}
			break
		}
		c := 0
		if dec < len(choices) {
			c = choices[dec]
		}
		if c >= len(en) {
			c = len(en) - 1
		}
		widths = append(widths, len(en))
		dec++
		ev, err := s.Step(en[c])
		if err != nil {
			tr.Err = err.Error()
			break
		}
		names = append(names, ev.Proc)
		// observable facts of the segment just executed
		switch {
		case ev.From == "ps.add.sum":
			tr.Ev = append(tr.Ev, []any{"counted", ev.Proc}) // count.Add(1) executed: the record is complete
		case strings.HasSuffix(ev.From, ".start") && strings.HasPrefix(ev.Proc, "r"), ev.From == "rec.next":
			tr.Ev = append(tr.Ev, []any{"summed", ev.Proc})
		case (ev.From == "P.start" || ev.From == "snap.next" || ev.From == "M.start") && ev.To == "ps.collect.read":
			tr.Ev = append(tr.Ev, []any{"collect.begin", ev.Proc})
		case ev.From == "ps.stats.collected":
			// the snapshot this collector just stored; readable only if no other collector holds (or has
			// just been handed) the Result mutex - nothing else runs right now, so this is decidable
			busy := false
			for _, p := range s.Procs() {
				if (p.Name == "P" || p.Name == "M") && p.Name != ev.Proc &&
					(p.State == sched.Blocked || (p.State == sched.AtYield && strings.HasPrefix(p.Point, "ps."))) {
					busy = true
				}
			}
			if busy {
				tr.Ev = append(tr.Ev, []any{"stored", ev.Proc, -1, -1})
			} else {
				sn := res.Snapshot()
				tr.Ev = append(tr.Ev, []any{"stored", ev.Proc, int(sn.SuccessfulIterationDurations.Count), int(sn.FailedIterationDurations.Count)})
			}
		default:
			if ev.State == "blocked" {
				tr.Ev = append(tr.Ev, []any{"blocked", ev.Proc})
			}
		}
	}
	if tr.Err == "" {
		sn := res.Snapshot()
		// every Record carries duration 1 ns: at quiescence the lifetime figures must be exactly 1/1/1
		fig := func(d progress.IterationDurationsSnapshot) bool {
			return d.Count == 0 || (d.Average == 1 && d.Min == 1 && d.Max == 1)
		}
		tr.Ev = append(tr.Ev, []any{"end", "", int(sn.SuccessfulIterationDurations.Count), int(sn.FailedIterationDurations.Count),
			fig(sn.SuccessfulIterationDurations) && fig(sn.FailedIterationDurations)})
	} else {
		fmt.Println("c01 schedule error:", tr.Err, choices)
		for _, e := range s.Log {
			fmt.Printf("   %+v\n", e)
		}
	}
	tr.Sched = strings.Join(names, " ")
	tr.Steps = len(names)
	return tr, widths
}

// dfsC01 enumerates schedules depth-first, up to max.
func dfsC01(w *ndjson, cfg c01cfg, max int) (int, bool) {
	var choices []int
	n := 0
	for {
		tr, widths := runC01(cfg, choices)
		w.write(tr)
		n++
		if tr.Err != "" || n >= max {
			return n, false
		}
		// next schedule: bump the last decision that still has an alternative
		full := make([]int, len(widths))
		copy(full, choices)
		i := len(widths) - 1
		for ; i >= 0; i-- {
			if full[i]+1 < widths[i] {
				break
			}
		}
		if i < 0 {
			return n, true
		}
		choices = append(full[:i:i], full[i]+1)
	}
}

func init() {
	register("c01", func(c *ctx) error {
		w, err := newNDJSON(filepath.Join(c.out, "c01.ndjson"))
		if err != nil {
			return err
		}
		defer w.close()
		cfgs := []c01cfg{{1, 1, 1, false}, {1, 2, 1, false}, {2, 1, 1, true}, {1, 1, 2, false}}
		if !c.quick() {
			cfgs = append(cfgs, c01cfg{2, 2, 1, true}, c01cfg{2, 1, 2, false}, c01cfg{1, 2, 2, true})
		}
		total := 0
		for _, cfg := range cfgs {
			n, complete := dfsC01(w, cfg, c.pick(1500, 40000))
			total += n
			fmt.Printf("c01 cfg %+v: %d schedules (complete=%v)\n", cfg, n, complete)
		}
		fmt.Println("c01 schedules:", total)
		return nil
	})
}
