package main

import (
	"fmt"
	"path/filepath"
	"sync"
	"time"

	"github.com/form3tech-oss/f1/v2/internal/metrics"
	"github.com/form3tech-oss/f1/v2/internal/progress"
	"github.com/form3tech-oss/f1/v2/internal/verifhook"
)

// c17stress: the real progress.Stats with a recorder running freely against a snapshotting goroutine (no yield-point
// gating: the windows INSIDE Add and CollectLifetime are only reachable with real parallelism). After every round both
// goroutines have returned and the lifetime figures of Total() must cover everything recorded so far.
type c17stressRow struct {
	Rounds  int    `json:"rounds"`
	N       int64  `json:"n"`
	Count   int64  `json:"count"`
	SumUs   int64  `json:"sum_us"`
	SumTrue int64  `json:"sum_true_us"`
	MinUs   int64  `json:"min_us"`
	MinTrue int64  `json:"min_true_us"`
	MaxUs   int64  `json:"max_us"`
	MaxTrue int64  `json:"max_true_us"`
	AvgUs   int64  `json:"avg_us"`
	Err     string `json:"err"`
}

func runC17Stress(budget time.Duration, result metrics.ResultType) c17stressRow {
	verifhook.Install(nil)
	stats := &progress.Stats{}
	row := c17stressRow{}
	var n, sum, mn, mx int64
	deadline := time.Now().Add(budget)
	for k := int64(1); time.Now().Before(deadline); k++ {
		slow := (1_000_000 + k) * 1000 // a new all-time slowest (in ns, whole microseconds)
		fast := (900_000 - k%800_000) * 1000
		var wg sync.WaitGroup
		wg.Add(2)
		go func() {
			defer wg.Done()
			stats.Record(result, slow)
			stats.Record(result, fast)
		}()
		go func() {
			defer wg.Done()
			for j := 0; j < 3; j++ {
				stats.Snapshot(time.Second)
			}
		}()
		wg.Wait()
		n += 2
		sum += (slow + fast) / 1000
		if mn == 0 || fast/1000 < mn {
			mn = fast / 1000
		}
		if slow/1000 > mx {
			mx = slow / 1000
		}
		tot := stats.Total()
		d := tot.SuccessfulIterationDurations
		if result == metrics.FailedResult {
			d = tot.FailedIterationDurations
		}
		row = c17stressRow{Rounds: int(k), N: n, Count: int64(d.Count), SumUs: 0, SumTrue: sum, MinUs: d.Min.Microseconds(),
			MinTrue: mn, MaxUs: d.Max.Microseconds(), MaxTrue: mx, AvgUs: d.Average.Microseconds()}
		if row.Count != n || row.MinUs != mn || row.MaxUs != mx {
			break // keep the first round at which the lifetime figures no longer cover everything recorded
		}
	}
	return row
}

func init() {
	register("c17stress", func(c *ctx) error {
		w, err := newNDJSON(filepath.Join(c.out, "c17stress.ndjson"))
		if err != nil {
			return err
		}
		defer w.close()
		b := time.Duration(c.pick(700, 4000)) * time.Millisecond
		w.write(runC17Stress(b, metrics.SuccessResult))
		w.write(runC17Stress(b, metrics.FailedResult))
		fmt.Println("c17stress rows:", w.n)
		return nil
	})
}
