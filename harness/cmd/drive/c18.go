package main

import (
	"context"
	"fmt"
	"path/filepath"
	"sync"
	"sync/atomic"
	"time"

	"github.com/form3tech-oss/f1/v2/internal/raterun"
	"github.com/form3tech-oss/f1/v2/internal/verifhook"
)

// C18: the REAL raterun.Runner. (1) negative replay of the spec's forbidden behaviour: park the
// runner goroutine on a due tick (hook rr.tick), call Stop, see whether Stop returns while the tick
// is parked and whether the function then runs after Stop returned. (2) random operation sequences
// (New, Start, Restart, Stop | cancel) with the function's invocations logged.
type c18trace struct {
	Name  string    `json:"name"`
	Sched [][]int64 `json:"sched"` // [start delay us, frequency us]
	Ev    []rEv     `json:"ev"`
	Err   string    `json:"err"`
}

type c18rec struct {
	mu     sync.Mutex
	t0     time.Time
	ev     []rEv
	gate   chan struct{} // non-nil: park the goroutine at rr.tick until closed
	atTick chan struct{}
	once   sync.Once
}

func (r *c18rec) us() int64 { return time.Since(r.t0).Microseconds() }
func (r *c18rec) add(e rEv) {
	r.mu.Lock()
	r.ev = append(r.ev, e)
	r.mu.Unlock()
}

var c18routes sync.Map // *raterun.Runner -> *c18rec

func c18hook(point string, who any, n int64) {
	v, ok := c18routes.Load(who)
	if !ok {
		return
	}
	r := v.(*c18rec)
	switch point {
	case "rr.tick":
		r.add(rEv{K: "h.tick", A: n / 1000, C: r.us()})
		if r.gate != nil {
			r.once.Do(func() { close(r.atTick) })
			<-r.gate
		}
	case "rr.exit":
		r.add(rEv{K: "exit", C: r.us()})
	case "rr.restart", "rr.next", "rr.ticked", "rr.done":
		r.add(rEv{K: "h." + point[3:], C: r.us()})
	}
}

func c18leaks() int {
	n, _ := leakedF1Goroutines()
	return n
}

func c18park() c18trace {
	tr := c18trace{Name: "park-due-tick-then-stop", Sched: [][]int64{{0, 2000}}}
	rec := &c18rec{t0: time.Now(), gate: make(chan struct{}), atTick: make(chan struct{})}
	fn := func(f time.Duration) {
		rec.add(rEv{K: "fnb", A: f.Microseconds(), C: rec.us()})
		rec.add(rEv{K: "fne", C: rec.us()})
	}
	g0 := c18leaks()
	rec.add(rEv{K: "new", C: rec.us()})
	rn, err := raterun.New(fn, []raterun.Schedule{{StartDelay: 0, Frequency: 2 * time.Millisecond}})
	if err != nil {
		tr.Err = err.Error()
		return tr
	}
	c18routes.Store(rn, rec)
	defer c18routes.Delete(rn)
	rec.add(rEv{K: "start", C: rec.us()})
	rn.Start(context.Background())
	select {
	case <-rec.atTick:
		rec.add(rEv{K: "parked", C: rec.us()})
	case <-time.After(2 * time.Second):
		tr.Err = "the runner never reached a tick"
		close(rec.gate)
		return tr
	}
	stopDone := make(chan struct{})
	rec.add(rEv{K: "stopcall", C: rec.us()})
	go func() {
		rn.Stop()
		rec.add(rEv{K: "stopret", C: rec.us()})
		close(stopDone)
	}()
	select {
	case <-stopDone: // Stop returned although the goroutine is parked on a due tick
	case <-time.After(150 * time.Millisecond):
	}
	rec.add(rEv{K: "release", C: rec.us()})
	close(rec.gate)
	select {
	case <-stopDone:
	case <-time.After(3 * time.Second):
		rec.add(rEv{K: "stophang", C: rec.us()})
	}
	time.Sleep(60 * time.Millisecond)
	rec.add(rEv{K: "after", D: int64(maxInt(c18leaks()-g0, 0))})
	rec.mu.Lock()
	tr.Ev = rec.ev
	rec.mu.Unlock()
	return tr
}

func maxInt(a, b int) int {
	if a > b {
		return a
	}
	return b
}

// forced: "" random | "long-stop" | "long-cancel": a long first start delay ended by Stop / cancel |
// "immediate-stop": Stop called by the starting goroutine right after Start returned (the runner goroutine has
// most likely not executed its first statement yet)
func c18random(c *ctx, k int, forced string) c18trace {
	ns := 1 + c.rng.Intn(3)
	var sch []raterun.Schedule
	tr := c18trace{Name: fmt.Sprintf("random-%d%s", k, forced)}
	for i := 0; i < ns; i++ {
		d := time.Duration(c.rng.Intn(70)) * time.Millisecond
		if i == 0 && c.rng.Intn(3) > 0 {
			d = 0
		}
		if forced == "immediate-stop" || forced == "slow-fn-stop" {
			d = 0
		} else if i == 0 && (c.rng.Intn(8) == 0 || forced != "") {
			d = 4 * time.Second // a long first start delay: Stop/cancel must still end the goroutine promptly
		}
		f := time.Duration(2+c.rng.Intn(14)) * time.Millisecond
		// distinct frequencies identify the schedule in the function's argument
		f += time.Duration(i) * 17 * time.Microsecond
		sch = append(sch, raterun.Schedule{StartDelay: d, Frequency: f})
		tr.Sched = append(tr.Sched, []int64{d.Microseconds(), f.Microseconds()})
	}
	if forced == "restart-in-first" {
		// Restart while the FIRST schedule is the active one and the second has not started yet: the second schedule's
		// start delay counts from the restart
		sch = []raterun.Schedule{{StartDelay: 0, Frequency: 5 * time.Millisecond}, {StartDelay: 70 * time.Millisecond, Frequency: 7017 * time.Microsecond}}
		tr.Sched = [][]int64{{0, 5000}, {70000, 7017}}
	}
	rec := &c18rec{t0: time.Now()}
	fnDur := time.Duration(c.rng.Intn(3000)) * time.Microsecond
	var slowOnce atomic.Bool
	fn := func(f time.Duration) {
		rec.add(rEv{K: "fnb", A: f.Microseconds(), C: rec.us()})
		if slowOnce.CompareAndSwap(true, false) {
			time.Sleep(1500 * time.Millisecond) // e.g. progress output blocked on a stalled terminal
		}
		if fnDur > 0 {
			time.Sleep(fnDur)
		}
		rec.add(rEv{K: "fne", C: rec.us()})
	}
	g0 := c18leaks()
	rec.add(rEv{K: "new", C: rec.us()})
	rn, err := raterun.New(fn, sch)
	if err != nil {
		tr.Err = err.Error()
		return tr
	}
	c18routes.Store(rn, rec)
	defer c18routes.Delete(rn)
	if c.rng.Intn(3) == 0 {
		time.Sleep(time.Duration(c.rng.Intn(30)) * time.Millisecond)
	}
	ctx, cancel := context.WithCancel(context.Background())
	defer cancel()
	rec.add(rEv{K: "start", C: rec.us()})
	rn.Start(ctx)
	if forced == "slow-fn-stop" {
		// Stop arrives while an invocation is in progress that lasts well over a second: it returns only when that is over
		time.Sleep(40 * time.Millisecond)
		slowOnce.Store(true)
		time.Sleep(30 * time.Millisecond)
		rec.add(rEv{K: "stopcall", C: rec.us()})
		rn.Stop()
		rec.add(rEv{K: "stopret", C: rec.us()})
		time.Sleep(150 * time.Millisecond)
		rec.add(rEv{K: "after", D: int64(maxInt(c18leaks()-g0, 0))})
		rec.mu.Lock()
		tr.Ev = rec.ev
		rec.mu.Unlock()
		return tr
	}
	if forced == "restart-in-first" {
		time.Sleep(35 * time.Millisecond)
		rec.add(rEv{K: "restart", C: rec.us()})
		rn.Restart()
		time.Sleep(130 * time.Millisecond)
		rec.add(rEv{K: "stopcall", C: rec.us()})
		rn.Stop()
		rec.add(rEv{K: "stopret", C: rec.us()})
		time.Sleep(120 * time.Millisecond)
		rec.add(rEv{K: "after", D: int64(maxInt(c18leaks()-g0, 0))})
		rec.mu.Lock()
		tr.Ev = rec.ev
		rec.mu.Unlock()
		return tr
	}
	if forced == "immediate-stop" {
		rec.add(rEv{K: "stopcall", C: rec.us()})
		rn.Stop()
		rec.add(rEv{K: "stopret", C: rec.us()})
		time.Sleep(150 * time.Millisecond)
		rec.add(rEv{K: "after", D: int64(maxInt(c18leaks()-g0, 0))})
		rec.mu.Lock()
		tr.Ev = rec.ev
		rec.mu.Unlock()
		return tr
	}
	nops := 1 + c.rng.Intn(4)
	if forced != "" {
		nops = 0 // still inside the first start delay when Stop / cancel arrives
	}
	for i := 0; i < nops; i++ {
		time.Sleep(time.Duration(5+c.rng.Intn(90)) * time.Millisecond)
		if c.rng.Intn(2) == 0 {
			rec.add(rEv{K: "restart", C: rec.us()}) // logged BEFORE the call: see Trace_RateRunner
			rn.Restart()
		}
	}
	time.Sleep(time.Duration(c.rng.Intn(60)) * time.Millisecond)
	if (c.rng.Intn(2) == 0 && forced == "") || forced == "long-stop" {
		rec.add(rEv{K: "stopcall", C: rec.us()})
		stopped := make(chan struct{})
		go func() { rn.Stop(); close(stopped) }()
		select {
		case <-stopped:
			rec.add(rEv{K: "stopret", C: rec.us()})
		case <-time.After(1500 * time.Millisecond):
			rec.add(rEv{K: "stophang", C: rec.us()})
			<-stopped
			rec.add(rEv{K: "stopret", C: rec.us()})
		}
	} else {
		rec.add(rEv{K: "cancel", C: rec.us()})
		cancel()
	}
	time.Sleep(120 * time.Millisecond)
	rec.add(rEv{K: "after", D: int64(maxInt(c18leaks()-g0, 0))})
	rec.mu.Lock()
	tr.Ev = rec.ev
	rec.mu.Unlock()
	return tr
}

func init() {
	register("c18", func(c *ctx) error {
		w, err := newNDJSON(filepath.Join(c.out, "c18.ndjson"))
		if err != nil {
			return err
		}
		defer w.close()
		verifhook.Install(c18hook)
		defer verifhook.Install(nil)
		for k := 0; k < c.pick(2, 6); k++ {
			w.write(c18park())
		}
		// random sequences, a few at a time (they mostly sleep)
		n := c.pick(24, 240)
		var mu sync.Mutex
		var wg sync.WaitGroup
		sem := make(chan struct{}, 1) // sequential: the leak check counts goroutines of the whole process
		for k := 0; k < n; k++ {
			wg.Add(1)
			sem <- struct{}{}
			func(k int) {
				defer wg.Done()
				defer func() { <-sem }()
				forced := ""
				if k == 0 {
					forced = "long-stop"
				} else if k == 1 {
					forced = "long-cancel"
				} else if k >= 2 && k <= 5 {
					forced = "immediate-stop"
				} else if k == 6 {
					forced = "slow-fn-stop"
				}
				t := c18random(c, k, forced)
				mu.Lock()
				w.write(t)
				mu.Unlock()
			}(k)
		}
		wg.Wait()
		// (after the random ones, so that their draws are what they were)
		for k := 0; k < c.pick(2, 6); k++ {
			w.write(c18random(c, n+k, "restart-in-first"))
		}
		fmt.Println("c18 traces:", w.n)
		return nil
	})
}
