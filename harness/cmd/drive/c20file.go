package main

import (
	"context"
	"fmt"
	"os"
	"path/filepath"
	"sync"
	"time"

	"github.com/form3tech-oss/f1/v2/internal/trigger/file"
	"github.com/form3tech-oss/f1/v2/internal/ui"
	"github.com/form3tech-oss/f1/v2/pkg/f1"
	f1testing "github.com/form3tech-oss/f1/v2/pkg/f1/testing"
)

// c20file: a combined scenario under the config-file trigger, with iterations that are still in flight when the next
// stage builds its pool. One observation per iteration: what each component saw (C20: every component of an iteration
// is invoked, in order, with THAT iteration's handle).
type c20row struct {
	Iter        int    `json:"iter"` // ordinal of the observation
	ID1         string `json:"id1"`  // t.Iteration seen by component 1
	ID2         string `json:"id2"`  // t.Iteration seen by component 2 ("" = not invoked)
	SameT       bool   `json:"same_handle"`
	Order       string `json:"order"`
	FailedAtEnd bool   `json:"failed_at_end"`
	Stopped     bool   `json:"stopped"` // component 1 stopped the iteration (FailNow): component 2 must not run
	Err         string `json:"err"`
}

func init() {
	register("c20file", func(c *ctx) error {
		w, err := newNDJSON(filepath.Join(c.out, "c20file.ndjson"))
		if err != nil {
			return err
		}
		defer w.close()
		yaml := `scenario: scn
limits:
  max-duration: 5s
  concurrency: 3
  max-iterations: 0
  ignore-dropped: true
default:
  mode: constant
  distribution: none
  jitter: 0
stages:
- duration: 100ms
  rate: 2/20ms
- duration: 100ms
  rate: 2/20ms
- duration: 100ms
  mode: users
  concurrency: 3
- duration: 100ms
  rate: 2/20ms
`
		for rep := 0; rep < c.pick(2, 8); rep++ {
			var mu sync.Mutex
			type obs struct {
				t      *f1testing.T
				id1    string
				id2    string
				order  string
				stop   bool
				failed bool
			}
			var all []*obs
			cur := map[*f1testing.T]*obs{} // the observation in progress on a handle (as component 2 finds it)
			n := 0
			comp1 := func(t *f1testing.T) f1testing.RunFn {
				return func(t *f1testing.T) {
					mu.Lock()
					n++
					k := n
					o := &obs{t: t, id1: t.Iteration, order: "1"}
					all = append(all, o)
					cur[t] = o
					mu.Unlock()
					// every third iteration outlives its stage's end by far more than the 20 ms pause between stages
					if k%3 == 0 {
						time.Sleep(90 * time.Millisecond)
					} else {
						time.Sleep(time.Duration(k%7) * time.Millisecond)
					}
					if k%5 == 4 {
						mu.Lock()
						o.stop = true
						mu.Unlock()
						t.FailNow()
					}
					// hand the observation over to component 2 through the handle they must share
					mu.Lock()
					cur[t] = o
					mu.Unlock()
				}
			}
			comp2 := func(t *f1testing.T) f1testing.RunFn {
				return func(t *f1testing.T) {
					mu.Lock()
					defer mu.Unlock()
					// component 2 of an iteration is called right after its component 1 returned, on the same handle
					o := cur[t]
					if o == nil || o.id2 != "" {
						o = &obs{t: t, id1: "?", order: ""}
						all = append(all, o)
					}
					o.id2 = t.Iteration
					o.order += "2"
					o.failed = t.Failed()
				}
			}
			p := filepath.Join(c.out, fmt.Sprintf("c20-%d.yaml", time.Now().UnixNano()))
			if err := os.WriteFile(p, []byte(yaml), 0o600); err != nil {
				return err
			}
			b := file.Rate(ui.NewDiscardOutput())
			if err := b.Flags.Parse([]string{p}); err != nil {
				return err
			}
			trig, err := b.New(b.Flags)
			os.Remove(p)
			if err != nil {
				return err
			}
			sr := simpleRun{Concurrency: 3, MaxDuration: 5 * time.Second, WaitTimeout: 2 * time.Second}
			_, _, rerr := sr.doTrigger(context.Background(), f1.CombineScenarios(comp1, comp2), trig)
			mu.Lock()
			for i, o := range all {
				row := c20row{Iter: i + 1, ID1: o.id1, ID2: o.id2, SameT: o.id1 != "?", Order: o.order, Stopped: o.stop, FailedAtEnd: o.failed}
				if rerr != nil {
					row.Err = rerr.Error()
				}
				w.write(row)
			}
			mu.Unlock()
		}
		fmt.Println("c20file observations:", w.n)
		return nil
	})
}
