package main

import (
	"fmt"
	"path/filepath"
	"time"

	"github.com/form3tech-oss/f1/v2/internal/trigger/api"
	"github.com/form3tech-oss/f1/v2/internal/trigger/constant"
	"github.com/form3tech-oss/f1/v2/internal/trigger/file"
)

// C13 traces of the REAL api.WithJitter (with its real random source) around scripted rates.
type c13trace struct {
	J        int      `json:"J"` // jitter percent * 100
	Shape    string   `json:"shape"`
	Panicked bool     `json:"panicked"`
	Err      string   `json:"err,omitempty"`
	Ev       [][2]int `json:"ev"`
}

func runC13(c *ctx, jScaled int, shape string, rmax, n int) (tr c13trace) {
	tr = c13trace{J: jScaled, Shape: shape, Ev: make([][2]int, 0, n)}
	defer func() {
		if r := recover(); r != nil {
			tr.Panicked = true
			tr.Err = fmt.Sprint(r)
		}
	}()
	k := 0
	cur := 0
	under := func(time.Time) int {
		switch shape {
		case "constant":
			cur = rmax
		case "bursty":
			if k%17 < 2 {
				cur = rmax
			} else {
				cur = c.rng.Intn(3)
			}
		case "zeros":
			if (k/40)%2 == 0 {
				cur = 0
			} else {
				cur = c.rng.Intn(rmax + 1)
			}
		case "dip":
			// a profile that spends a third of its time below zero
			cur = rmax/2 - (k%30)*rmax/20
		case "ramp":
			cur = (k * rmax) / n
		default:
			cur = c.rng.Intn(rmax + 1)
		}
		k++
		return cur
	}
	fn := api.WithJitter(under, float64(jScaled)/100.0)
	now := time.Unix(1_700_000_000, 0)
	for i := 0; i < n; i++ {
		out := fn(now)
		tr.Ev = append(tr.Ev, [2]int{cur, out})
		now = now.Add(time.Second)
	}
	return tr
}

// the jittered rate spread over 100 ms sub-ticks by --distribution random|regular (the way `constant -r 2/s -j 75
// --distribution random` runs): per tick of the configured interval the sub-ticks add up to the jittered value, and
// the jitter (which carries a remainder from call to call) is asked once per tick - so the per-tick sums are a jitter
// trace like any other
func runC13Dist(dist string, jScaled, rate, n int) (tr c13trace) {
	tr = c13trace{J: jScaled, Shape: "constant-via-" + dist, Ev: make([][2]int, 0, n)}
	defer func() {
		if r := recover(); r != nil {
			tr.Panicked = true
			tr.Err = fmt.Sprint(r)
		}
	}()
	rates, err := constant.CalculateConstantRate(float64(jScaled)/100.0, fmt.Sprintf("%d/1s", rate), dist)
	if err != nil || rates.IterationDuration <= 0 {
		tr.Panicked, tr.Err = true, fmt.Sprint("rate not accepted: ", err)
		return tr
	}
	sub := int(time.Second / rates.IterationDuration)
	now := time.Unix(1_700_000_000, 0)
	for i := 0; i < n; i++ {
		sum := 0
		for q := 0; q < sub; q++ {
			sum += rates.Rate(now)
			now = now.Add(rates.IterationDuration)
		}
		tr.Ev = append(tr.Ev, [2]int{rate, sum})
	}
	return tr
}

// the same through the config-file front end: a constant stage whose jitter is its OWN value when it writes one - an
// explicit 0 too - and the default section's otherwise; the rate function is the one the parsed stage carries
func runC13File(defJ, stJ, rate, n int) (tr c13trace) {
	eff := stJ
	if stJ < 0 {
		eff = defJ
	}
	if eff < 0 {
		eff = 0
	}
	tr = c13trace{J: eff * 100, Shape: fmt.Sprintf("file(default=%d,stage=%d)", defJ, stJ), Ev: make([][2]int, 0, n)}
	defer func() {
		if r := recover(); r != nil {
			tr.Panicked = true
			tr.Err = fmt.Sprint(r)
		}
	}()
	y := "scenario: scn\nlimits:\n  max-duration: 1m\n  concurrency: 4\n  max-iterations: 0\n  ignore-dropped: true\ndefault:\n  distribution: none\n  duration: 1h\n"
	if defJ >= 0 {
		y += fmt.Sprintf("  jitter: %d\n", defJ)
	}
	y += fmt.Sprintf("stages:\n- mode: constant\n  rate: %d/1s\n", rate)
	if stJ >= 0 {
		y += fmt.Sprintf("  jitter: %d\n", stJ)
	}
	now := time.Date(2030, 1, 2, 3, 4, 0, 0, time.UTC)
	rs, err := file.ParseConfigFile([]byte(y), now)
	if err != nil || len(rs.Stages) != 1 || rs.Stages[0].Rate == nil {
		tr.Panicked, tr.Err = true, fmt.Sprint("config not accepted: ", err)
		return tr
	}
	for i := 0; i < n; i++ {
		tr.Ev = append(tr.Ev, [2]int{rate, rs.Stages[0].Rate(now.Add(time.Duration(i) * time.Second))})
	}
	return tr
}

func init() {
	register("c13", func(c *ctx) error {
		w, err := newNDJSON(filepath.Join(c.out, "c13.ndjson"))
		if err != nil {
			return err
		}
		defer w.close()
		js := []int{0, 1, 50, 100, 500, 1000, 1250, 2000, 3333, 5000, 7500, 9000, 9900, 9999, 10000, 15000, -2000}
		shapes := []string{"constant", "bursty", "zeros", "ramp", "random", "dip"}
		reps := c.pick(1, 4)
		n := c.pick(400, 800)
		for rep := 0; rep < reps; rep++ {
			for _, j := range js {
				for _, sh := range shapes {
					// keep req * 4*10^4 below 2^31: the balance bound is (j rmax + .5)/(1-j)
					rmax := []int{1, 3, 10, 100, 1000, 10000}[c.rng.Intn(6)]
					aj := j
					if aj < 0 {
						aj = -aj
					}
					for aj < 10000 && (aj*rmax+5000)/(10000-aj)+rmax > 20000 {
						rmax /= 10
					}
					if aj >= 10000 && rmax > 100 {
						rmax = 100
					}
					if rmax < 1 {
						rmax = 1
					}
					nn := n
					if aj >= 10000 {
						nn = 60 // unbounded drift allowed at >= 100 %: keep numbers small
					}
					if sh == "dip" && j != 0 {
						// with jitter the time below zero builds up debt: keep it small enough for TLC's integers
						if rmax > 10 {
							rmax = 10
						}
						if nn > 120 {
							nn = 120
						}
					}
					w.write(runC13(c, j, sh, rmax, nn))
				}
			}
		}
		for _, dist := range []string{"random", "regular"} {
			for _, jr := range [][2]int{{7500, 2}, {5000, 3}, {9000, 1}, {2000, 40}} {
				w.write(runC13Dist(dist, jr[0], jr[1], 600))
			}
		}
		for _, ds := range [][2]int{{50, 0}, {80, 0}, {50, 20}, {0, 30}, {-1, 0}, {40, -1}, {-1, -1}, {0, 0}, {20, 50}} {
			w.write(runC13File(ds[0], ds[1], []int{10, 50, 100}[c.rng.Intn(3)], 300)) // (rate x ticks x 4*10^4 stays below 2^31 for TLC)
		}
		fmt.Println("c13 traces:", w.n)
		return nil
	})
}
