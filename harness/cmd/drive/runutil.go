package main

import (
	"context"
	"fmt"
	"time"

	"github.com/prometheus/client_golang/prometheus"
	dto "github.com/prometheus/client_model/go"

	"github.com/form3tech-oss/f1/v2/internal/envsettings"
	"github.com/form3tech-oss/f1/v2/internal/metrics"
	"github.com/form3tech-oss/f1/v2/internal/options"
	"github.com/form3tech-oss/f1/v2/internal/run"
	"github.com/form3tech-oss/f1/v2/internal/trigger/api"
	"github.com/form3tech-oss/f1/v2/internal/trigger/constant"
	"github.com/form3tech-oss/f1/v2/internal/trigger/users"
	"github.com/form3tech-oss/f1/v2/internal/ui"
	"github.com/form3tech-oss/f1/v2/pkg/f1/scenarios"
	f1testing "github.com/form3tech-oss/f1/v2/pkg/f1/testing"
)

// simpleRun builds and executes a REAL run.Run for one scenario function.
type simpleRun struct {
	Mode        string // "users" | "constant"
	Rate        string // constant: rate argument
	Dist        string
	Concurrency int
	MaxIter     uint64
	MaxDuration time.Duration
	WaitTimeout time.Duration
	Metrics     *metrics.Metrics
	Opts        func(*options.RunOptions)
	Output      *ui.Output
	Scenario    string // scenario name ("scn" when empty)
}

func (s simpleRun) trigger() (*api.Trigger, error) {
	if s.Mode == "users" {
		return users.Rate().New(users.Rate().Flags)
	}
	b := constant.Rate()
	if err := b.Flags.Set("rate", s.Rate); err != nil {
		return nil, err
	}
	d := s.Dist
	if d == "" {
		d = "none"
	}
	if err := b.Flags.Set("distribution", d); err != nil {
		return nil, err
	}
	return b.New(b.Flags)
}

func (s simpleRun) do(ctx context.Context, fn f1testing.ScenarioFn) (*run.Result, *metrics.Metrics, error) {
	trig, err := s.trigger()
	if err != nil {
		return nil, nil, fmt.Errorf("trigger: %w", err)
	}
	return s.doTrigger(ctx, fn, trig)
}

func (s simpleRun) doTrigger(ctx context.Context, fn f1testing.ScenarioFn, trig *api.Trigger) (*run.Result, *metrics.Metrics, error) {
	name := s.Scenario
	if name == "" {
		name = "scn"
	}
	scn := scenarios.New().Add(&scenarios.Scenario{Name: name, ScenarioFn: fn})
	m := s.Metrics
	if m == nil {
		m = metrics.NewInstance(prometheus.NewRegistry(), true, nil)
	}
	if s.MaxDuration == 0 {
		s.MaxDuration = 20 * time.Second
	}
	if s.WaitTimeout == 0 {
		s.WaitTimeout = 5 * time.Second
	}
	if s.Concurrency == 0 {
		s.Concurrency = 1
	}
	o := options.RunOptions{Scenario: name, MaxDuration: s.MaxDuration, Concurrency: s.Concurrency,
		MaxIterations: s.MaxIter, Verbose: true}
	if s.Opts != nil {
		s.Opts(&o)
	}
	out := s.Output
	if out == nil {
		out = ui.NewDiscardOutput()
	}
	rn, err := run.NewRun(o, scn, trig, s.WaitTimeout, envsettings.Settings{}, m, out)
	if err != nil {
		return nil, m, fmt.Errorf("newrun: %w", err)
	}
	res, err := rn.Do(ctx)
	return res, m, err
}

// gatherIteration returns result label -> (sample count, sample sum) of the exported iteration metric.
func gatherFamily(m *metrics.Metrics, family string) ([]*dto.Metric, error) {
	fams, err := m.Registry.Gather()
	if err != nil {
		return nil, err
	}
	for _, f := range fams {
		if f.GetName() == family {
			return f.GetMetric(), nil
		}
	}
	return nil, nil
}

func labelOf(mt *dto.Metric, name string) string {
	for _, l := range mt.GetLabel() {
		if l.GetName() == name {
			return l.GetValue()
		}
	}
	return ""
}
