package main

import (
	"fmt"
	"path/filepath"
	"time"

	"github.com/form3tech-oss/f1/v2/internal/trigger/api"
	"github.com/form3tech-oss/f1/v2/internal/trigger/file"
)

// C12 traces of the REAL api.NewDistribution with a scripted underlying rate function and a
// scripted random source. See spec/Trace_Distribution.tla for the format.
type c12ev struct {
	Out   int `json:"out"`
	Rep   int `json:"rep"`
	Evals int `json:"evals"`
	Rate  int `json:"rate"`
}

type c12trace struct {
	Dist     string  `json:"dist"`
	InMs     int64   `json:"in_ms"`
	Frac     int     `json:"frac"`
	OutMs    int64   `json:"out_ms"`
	OutFrac  int     `json:"out_frac"`
	Rates    []int   `json:"rates"`
	Err      string  `json:"err,omitempty"`
	Panicked bool    `json:"panicked"`
	NoEvals  bool    `json:"noevals"` // the underlying rate function is f1's own (config-file traces): its evaluations are not visible
	Ev       []c12ev `json:"ev"`
}

func frac(d time.Duration) int {
	if d%time.Millisecond != 0 {
		return 1
	}
	return 0
}

// runC12 drives `calls` calls of the distributed function; rates are the successive values of
// the underlying function (cycled), draws the successive values of the random source (cycled;
// nil = a real seeded source).
func runC12(c *ctx, dist string, in time.Duration, rates []int, draws []int, calls int) (tr c12trace) {
	tr = c12trace{Dist: dist, InMs: in.Milliseconds(), Frac: frac(in), Rates: rates, Ev: []c12ev{}}
	if len(tr.Rates) > 16 {
		tr.Rates = tr.Rates[:16]
	}
	defer func() {
		if r := recover(); r != nil {
			tr.Panicked = true
			tr.Err = fmt.Sprint(r)
		}
	}()
	evals, last := 0, 0
	rateFn := func(time.Time) int {
		last = rates[evals%len(rates)]
		evals++
		return last
	}
	di := 0
	var randFn func(int) int
	if draws != nil {
		randFn = func(n int) int { v := draws[di%len(draws)]; di++; return v }
	} else {
		randFn = func(n int) int { return c.rng.Intn(n) }
	}
	outD, fn, err := api.NewDistribution(api.DistributionType(dist), in, rateFn, randFn)
	if err != nil {
		tr.Err = err.Error()
		return tr
	}
	tr.OutMs, tr.OutFrac = outD.Milliseconds(), frac(outD)
	n := 1
	if outD != in {
		n = int(in.Milliseconds() / 100)
		if n < 1 {
			n = 1
		}
	}
	now := time.Unix(1_700_000_000, 0)
	lateEvery := 0
	if c.rng.Intn(3) == 0 {
		lateEvery = 2 + c.rng.Intn(5)
	}
	// run-length encode, never across a cycle boundary (cycle boundary = underlying evaluated)
	pos := 0
	for k := 0; k < calls; k++ {
		before := evals
		out := fn(now)
		now = now.Add(outD)
		// the sub-ticks of a real ticker are not punctual: every few calls one arrives late by up to two sub-tick
		// periods (a dropped tick after a stall); a cycle is N CALLS of the function, whatever their timestamps
		if lateEvery > 0 && (k+1)%lateEvery == 0 {
			now = now.Add(time.Duration(50+c.rng.Intn(200)) * time.Millisecond)
		}
		started := evals != before
		if started {
			pos = 0
		}
		pos++
		m := len(tr.Ev)
		if !started && m > 0 && tr.Ev[m-1].Out == out && pos <= n {
			tr.Ev[m-1].Rep++
		} else {
			tr.Ev = append(tr.Ev, c12ev{Out: out, Rep: 1, Evals: evals, Rate: last})
		}
		if evals-before > 1 {
			// more than one evaluation inside one call: record each as its own (zero-length) event is not
			// possible; log the count so the spec rejects it
			tr.Ev[len(tr.Ev)-1].Evals = evals
		}
	}
	return tr
}

// runC12File: the same through the config-file front end - a staged stage with a flat profile of `rate` per
// `freq`, spread by `dist`; the tick interval and the rate function are the ones the PARSED STAGE carries (what the
// stage runner will use): the interval must be the 100 ms sub-tick and every cycle of freq/100ms calls hands out `rate`
func runC12File(dist, defDist string, freq time.Duration, rate, cycles int) (tr c12trace) {
	tr = c12trace{Dist: dist, InMs: freq.Milliseconds(), Frac: frac(freq), Rates: []int{rate}, NoEvals: true, Ev: []c12ev{}}
	defer func() {
		if r := recover(); r != nil {
			tr.Panicked = true
			tr.Err = fmt.Sprint(r)
		}
	}()
	y := fmt.Sprintf("scenario: scn\nlimits:\n  max-duration: 1h\n  concurrency: 4\n  max-iterations: 0\n  ignore-dropped: true\n" +
		"default:\n  jitter: 0\n")
	if defDist != "" {
		// the default section names ANOTHER distribution: the stage's own wins
		y += "  distribution: " + defDist + "\n"
	}
	y += fmt.Sprintf("stages:\n- mode: staged\n  duration: 1h\n  stages: 0s:%d,1h:%d\n  iteration-frequency: %s\n  distribution: %s\n", rate, rate, freq, dist)
	now := time.Date(2030, 1, 2, 3, 4, 0, 0, time.UTC)
	rs, err := file.ParseConfigFile([]byte(y), now)
	if err != nil || len(rs.Stages) != 1 || rs.Stages[0].Rate == nil {
		tr.Err, tr.Panicked = fmt.Sprint("config not accepted: ", err), true
		return tr
	}
	st := rs.Stages[0]
	tr.OutMs, tr.OutFrac = st.IterationDuration.Milliseconds(), frac(st.IterationDuration)
	n := 1
	if dist != "none" && freq > 100*time.Millisecond {
		n = int(freq.Milliseconds() / 100)
	}
	at := now
	for cy := 0; cy < cycles; cy++ {
		for k := 0; k < n; k++ {
			out := st.Rate(at)
			at = at.Add(st.IterationDuration)
			m := len(tr.Ev)
			if k > 0 && tr.Ev[m-1].Out == out {
				tr.Ev[m-1].Rep++
			} else {
				tr.Ev = append(tr.Ev, c12ev{Out: out, Rep: 1, Evals: 0, Rate: rate})
			}
		}
	}
	return tr
}

func init() {
	register("c12", func(c *ctx) error {
		w, err := newNDJSON(filepath.Join(c.out, "c12.ndjson"))
		if err != nil {
			return err
		}
		defer w.close()
		ms := time.Millisecond
		// (1) exhaustive small space, the one MC_Distribution explores: N x rate sequences
		maxN, maxR := c.pick(5, 6), c.pick(5, 7)
		for n := 1; n <= maxN; n++ {
			for _, extra := range []time.Duration{0, 37 * ms, 500 * time.Microsecond} {
				in := time.Duration(n)*100*ms + extra
				for r1 := 0; r1 <= maxR; r1++ {
					for r2 := 0; r2 <= maxR; r2++ {
						if extra != 0 {
							if (r1+r2)%3 == 0 {
								w.write(runC12(c, "regular", in, []int{r1, r2, (r1 + 2*r2) % (maxR + 1)}, nil, 3*n))
							}
							continue
						}
						for r3 := 0; r3 <= maxR; r3++ {
							w.write(runC12(c, "regular", in, []int{r1, r2, r3}, nil, 3*n))
						}
					}
				}
			}
		}
		// cycles whose rate is negative (a profile dipping below zero) between ordinary ones: they hand out nothing and
		// leave nothing behind for the cycles after them
		for n := 2; n <= 4; n++ {
			in := time.Duration(n) * 100 * ms
			for _, rates := range [][]int{{5, -3, 5}, {-2, 4, 0, 7}, {3, -7, -1, 6}, {0, -1, 9}, {8, -8, 8, -8}} {
				w.write(runC12(c, "regular", in, rates, nil, len(rates)*n*2))
				w.write(runC12(c, "random", in, rates, nil, len(rates)*n*2))
			}
		}
		// random distribution with scripted draws incl. out-of-range and zero
		for n := 1; n <= maxN; n++ {
			in := time.Duration(n) * 100 * ms
			for r := 0; r <= maxR; r++ {
				for k := 0; k < c.pick(6, 30); k++ {
					draws := make([]int, 1+c.rng.Intn(7))
					for j := range draws {
						draws[j] = c.rng.Intn(r + 3)
					}
					w.write(runC12(c, "random", in, []int{r, (r * 3) % (maxR + 1), maxR - r}, draws, 3*n))
				}
			}
		}
		// (2) identity cases: none for any interval; regular/random at or below 100 ms
		for _, in := range []time.Duration{1 * ms, 10 * ms, 99 * ms, 100 * ms, 100*ms + 1, 101 * ms, 250 * ms, time.Second, time.Hour} {
			for _, d := range []string{"none", "regular", "random"} {
				w.write(runC12(c, d, in, []int{3, 0, 7, 1, 12}, nil, 12))
			}
		}
		// (3) long random cycles (real random source for `random`)
		nl := c.pick(150, 1500)
		for k := 0; k < nl; k++ {
			var in time.Duration
			switch c.rng.Intn(4) {
			case 0:
				in = time.Duration(1+c.rng.Intn(50)) * 100 * ms
			case 1:
				in = time.Duration(100+c.rng.Intn(5000)) * ms
			case 2:
				in = time.Duration(1+c.rng.Intn(600)) * time.Second
			default:
				in = time.Duration(1+c.rng.Intn(c.pick(2, 24))) * time.Hour
			}
			n := int(in.Milliseconds() / 100)
			rates := make([]int, 3)
			for j := range rates {
				switch c.rng.Intn(4) {
				case 0:
					rates[j] = c.rng.Intn(10)
				case 1:
					rates[j] = c.rng.Intn(2*n + 2)
				case 2:
					rates[j] = n*(1+c.rng.Intn(5)) + c.rng.Intn(3) - 1
				default:
					rates[j] = c.rng.Intn(1_000_000)
				}
				if n > 2000 {
					// keep run-length-encoded logs small: sparse rates or (near-)multiples of N
					kk := 1 + c.rng.Intn(5)
					rates[j] = []int{c.rng.Intn(30), n * kk, n*kk + 1, n*kk - 1, n*kk + 2}[c.rng.Intn(5)]
				}
				if rates[j] < 0 {
					rates[j] = 0
				}
			}
			d := "regular"
			if k%3 == 2 {
				d = "random"
			}
			w.write(runC12(c, d, in, rates, nil, 3*n))
		}
		// through the config-file front end
		for _, dist := range []string{"regular", "random", "none"} {
			for _, fr := range []time.Duration{time.Second, 500 * ms, 300 * ms, 100 * ms, 2 * time.Second} {
				w.write(runC12File(dist, "", fr, []int{1, 7, 20, 113}[c.rng.Intn(4)], 6))
				w.write(runC12File(dist, map[string]string{"regular": "none", "random": "regular", "none": "random"}[dist], fr, []int{1, 7, 20, 113}[c.rng.Intn(4)], 6))
			}
		}
		fmt.Println("c12 traces:", w.n)
		return nil
	})
}
