package main

import (
	"io"
	"log/slog"
	"math/rand"
	"time"
)

func discardLogger() *slog.Logger {
	return slog.New(slog.NewTextHandler(io.Discard, &slog.HandlerOptions{Level: slog.LevelError + 100}))
}

func newRng(seed int64) *rand.Rand { return rand.New(rand.NewSource(seed)) }

func afterMs(ms int) <-chan time.Time { return time.After(time.Duration(ms) * time.Millisecond) }
