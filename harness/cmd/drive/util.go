package main

import (
	"io"
	"log/slog"
)

func discardLogger() *slog.Logger {
	return slog.New(slog.NewTextHandler(io.Discard, &slog.HandlerOptions{Level: slog.LevelError + 100}))
}
