package main

import (
	"fmt"
	"path/filepath"
	"sort"
	"strings"
	"sync"
	"time"

	"github.com/form3tech-oss/f1/v2/internal/trigger/ramp"
	"github.com/form3tech-oss/f1/v2/internal/trigger/staged"
	"github.com/form3tech-oss/f1/v2/internal/verifhook"
	"github.com/form3tech-oss/f1/v2/pkg/f1"
	f1testing "github.com/form3tech-oss/f1/v2/pkg/f1/testing"
)

// C10 query logs of the REAL staged and ramp calculators on synthetic timestamps.
type c10trace struct {
	Kind     string   `json:"kind"`
	Unit     string   `json:"unit"`
	Stages   [][2]int `json:"stages,omitempty"`
	S        int      `json:"S"`
	E        int      `json:"E"`
	D        int      `json:"D"`
	Dur      int64    `json:"dur"`
	Arg      string   `json:"arg"`
	Panicked bool     `json:"panicked"`
	Err      string   `json:"err,omitempty"`
	Ev       [][2]int `json:"ev"`
}

var c10units = []struct {
	name string
	d    time.Duration
}{{"ns", time.Nanosecond}, {"us", time.Microsecond}, {"ms", time.Millisecond}, {"s", time.Second}, {"m", time.Minute}, {"h", time.Hour}}

// offsets: sorted, starting at 0, hitting every boundary -1/0/+1 plus random points
func c10offsets(c *ctx, bounds []int, total, extra int) []int {
	set := map[int]bool{0: true}
	for _, b := range bounds {
		for _, dd := range []int{-1, 0, 1} {
			if b+dd >= 0 {
				set[b+dd] = true
			}
		}
	}
	for k := 0; k < extra; k++ {
		set[c.rng.Intn(total+total/4+3)] = true
	}
	out := make([]int, 0, len(set))
	for k := range set {
		out = append(out, k)
	}
	sort.Ints(out)
	// some instants are queried twice (two evaluations within one clock reading)
	if c.rng.Intn(3) == 0 {
		var dup []int
		for _, v := range out {
			dup = append(dup, v)
			if c.rng.Intn(4) == 0 {
				dup = append(dup, v)
			}
		}
		out = dup
	}
	// random thinning so that some traces skip whole stages between queries
	if c.rng.Intn(3) == 0 && len(out) > 4 {
		keep := []int{0}
		for _, v := range out[1:] {
			if c.rng.Intn(3) == 0 {
				keep = append(keep, v)
			}
		}
		out = keep
	}
	return out
}

func runC10Staged(c *ctx, unit int, st [][2]int, extra int) (tr c10trace) {
	u := c10units[unit]
	parts := make([]string, len(st))
	total := 0
	bounds := []int{}
	// every fourth profile is written with zero-padded numbers ("0100" is one hundred)
	tfmt := "%d%s:%d"
	if c.rng.Intn(4) == 0 {
		tfmt = "%d%s:%0" + fmt.Sprint(2+c.rng.Intn(5)) + "d"
	}
	for i, s := range st {
		parts[i] = fmt.Sprintf(tfmt, s[0], u.name, s[1])
		total += s[0]
		bounds = append(bounds, total)
	}
	arg := strings.Join(parts, ",")
	tr = c10trace{Kind: "staged", Unit: u.name, Stages: st, Arg: arg, Ev: [][2]int{}}
	defer func() {
		if r := recover(); r != nil {
			tr.Panicked = true
			tr.Err = fmt.Sprint(r)
		}
	}()
	rates, err := staged.CalculateStagedRate(0, time.Second, arg, "none", nil)
	if err != nil {
		tr.Err = err.Error()
		tr.Panicked = true // a well-formed stage list must not be rejected
		return tr
	}
	tr.Dur = int64(rates.Duration / u.d)
	if rates.Duration%u.d != 0 {
		tr.Dur = -1
	}
	base := time.Unix(1_700_000_000, 123_456_789)
	for _, off := range c10offsets(c, bounds, total, extra) {
		r := rates.Rate(base.Add(time.Duration(off) * u.d))
		tr.Ev = append(tr.Ev, [2]int{off, r})
	}
	return tr
}

func runC10Ramp(c *ctx, unit int, s, e, d int, extra int) (tr c10trace) {
	return runC10RampPer(c, unit, 1, s, e, d, extra)
}

// per: the rates are "s per <per> units"; the ramp duration d (in units) need not be a whole multiple of it
func runC10RampPer(c *ctx, unit, per int, s, e, d int, extra int) (tr c10trace) {
	u := c10units[unit]
	tr = c10trace{Kind: "ramp", Unit: u.name, S: s, E: e, D: d, Ev: [][2]int{}}
	tr.Arg = fmt.Sprintf("%d/%d%s -> %d/%d%s over %d%s", s, per, u.name, e, per, u.name, d, u.name)
	defer func() {
		if r := recover(); r != nil {
			tr.Panicked = true
			tr.Err = fmt.Sprint(r)
		}
	}()
	rates, err := ramp.CalculateRampRate(fmt.Sprintf("%d/%d%s", s, per, u.name), fmt.Sprintf("%d/%d%s", e, per, u.name), "none",
		time.Duration(d)*u.d, 0)
	if err != nil {
		tr.Err = err.Error()
		tr.Panicked = true
		return tr
	}
	tr.Dur = int64(rates.Duration / u.d)
	base := time.Unix(1_700_000_000, 987_654_321)
	for _, off := range c10offsets(c, []int{d}, d, extra) {
		r := rates.Rate(base.Add(time.Duration(off) * u.d))
		tr.Ev = append(tr.Ev, [2]int{off, r})
	}
	return tr
}

// runC10CLI: the profile a command line MEANS is the profile that run evaluates - also when it is not the first run on
// its F1 instance and relies on a flag's default where the earlier run set the flag. (Nearly) flat profiles (the measured
// offsets are wall-clock): the evaluations are captured at the trigger's own evaluation point (hook iw.eval).
func runC10CLI(kind string) (tr c10trace) {
	tr = c10trace{Kind: kind, Unit: "ms", Ev: [][2]int{}, Dur: -2} // (the total duration is not visible from outside)
	defer func() {
		if r := recover(); r != nil {
			tr.Panicked = true
			tr.Err = fmt.Sprint(r)
		}
	}()
	var mu sync.Mutex
	var first time.Time
	recording := false
	verifhook.Install(func(point string, _ any, n int64) {
		if point != "iw.eval" {
			return
		}
		mu.Lock()
		defer mu.Unlock()
		if !recording {
			return
		}
		if first.IsZero() {
			first = time.Now()
		}
		tr.Ev = append(tr.Ev, [2]int{int(time.Since(first).Milliseconds()), int(n)})
	})
	defer verifhook.Install(nil)
	scn := func(*f1testing.T) f1testing.RunFn { return func(*f1testing.T) {} }
	inst := f1.New().WithLogger(discardLogger()).Add("scn", scn)
	var a1, a2 []string
	boundary := -1
	if kind == "staged" {
		a1 = []string{"run", "staged", "scn", "--stages", "0s:40,100ms:40", "--iterationFrequency", "20ms", "--distribution", "none", "--max-duration", "150ms", "-c", "8"}
		a2 = []string{"run", "staged", "scn", "--distribution", "none", "--max-duration", "1300ms", "-c", "8"}
		tr.Stages = [][2]int{{0, 1}, {10000, 1}} // the documented default "0s:1, 10s:1", one evaluation per second
		tr.Arg = "second run with the default --stages and --iterationFrequency"
	} else {
		a1 = []string{"run", "ramp", "scn", "-s", "10/100ms", "-e", "11/100ms", "--ramp-duration", "400ms", "--distribution", "none", "--max-duration", "450ms", "-c", "8"}
		a2 = []string{"run", "ramp", "scn", "-s", "7/100ms", "-e", "8/100ms", "--distribution", "none", "--max-duration", "1300ms", "-c", "8"}
		tr.S, tr.E, tr.D = 7, 8, 1000 // the documented default --ramp-duration 1s (7 -> 8: any reading of the clock is within 1 of the exact value)
		boundary = 1000
		tr.Arg = "second run with the default --ramp-duration"
	}
	_ = inst.ExecuteWithArgs(a1)
	mu.Lock()
	recording = true
	mu.Unlock()
	if err := inst.ExecuteWithArgs(a2); err != nil {
		tr.Err = err.Error()
	}
	mu.Lock()
	recording = false
	// evaluations near the end of the ramp can fall on either side of it by the wall clock (the ramp's own clock starts
	// when the trigger is built, some time before the first evaluation - much earlier on a loaded machine): left out
	kept := tr.Ev[:0]
	for _, e := range tr.Ev {
		if boundary < 0 || e[0] < boundary-300 || e[0] > boundary+60 {
			kept = append(kept, e)
		}
	}
	tr.Ev = kept
	mu.Unlock()
	return tr
}

func init() {
	register("c10", func(c *ctx) error {
		w, err := newNDJSON(filepath.Join(c.out, "c10.ndjson"))
		if err != nil {
			return err
		}
		defer w.close()
		// (1) the small space of MC_Staged_Impl: <= 3 stages, d in {0,1,2,5}, e in {-3,0,1,4,7}, every offset
		ds, es := []int{0, 1, 2, 5}, []int{-3, 0, 1, 4, 7}
		var rec func(st [][2]int)
		rec = func(st [][2]int) {
			if len(st) > 0 {
				for _, unit := range []int{0, 2} {
					u := c10units[unit]
					parts := make([]string, len(st))
					total := 0
					for i, s := range st {
						parts[i] = fmt.Sprintf("%d%s:%d", s[0], u.name, s[1])
						total += s[0]
					}
					tr := c10trace{Kind: "staged", Unit: u.name, Stages: append([][2]int{}, st...), Arg: strings.Join(parts, ","), Ev: [][2]int{}}
					func() {
						defer func() {
							if r := recover(); r != nil {
								tr.Panicked = true
								tr.Err = fmt.Sprint(r)
							}
						}()
						rates, err := staged.CalculateStagedRate(0, time.Second, tr.Arg, "none", nil)
						if err != nil {
							tr.Panicked, tr.Err = true, err.Error()
							return
						}
						tr.Dur = int64(rates.Duration / u.d)
						base := time.Unix(1_700_000_000, 0)
						for off := 0; off <= total+2; off++ {
							tr.Ev = append(tr.Ev, [2]int{off, rates.Rate(base.Add(time.Duration(off) * u.d))})
						}
					}()
					w.write(tr)
				}
			}
			if len(st) == c.pick(2, 3) {
				return
			}
			for _, d := range ds {
				for _, e := range es {
					rec(append(st, [2]int{d, e}))
				}
			}
		}
		rec(nil)
		// (2) random stage lists, up to 8 stages incl. zero-length, targets up to 5000
		n := c.pick(300, 3000)
		for k := 0; k < n; k++ {
			unit := c.rng.Intn(4)
			maxT := []int{5, 50, 500, 5000}[c.rng.Intn(4)]
			maxD := 400_000_000 / maxT / 2
			if unit == 3 && maxD > 100 {
				maxD = 100
			}
			if unit == 2 && maxD > 100_000 {
				maxD = 100_000
			}
			ns := 1 + c.rng.Intn(8)
			st := make([][2]int, ns)
			// every fourth profile dips below zero (a target is any integer: "20s:-20, 20s:20" keeps the load off for 30 s)
			below := c.rng.Intn(4) == 0
			for i := range st {
				d := 0
				switch c.rng.Intn(5) {
				case 0:
					d = 0
				case 1:
					d = 1 + c.rng.Intn(3)
				default:
					d = 1 + c.rng.Intn(maxD/ns+1)
				}
				e := c.rng.Intn(maxT + 1)
				if below && c.rng.Intn(2) == 0 {
					e = -e
				}
				if c.rng.Intn(6) == 0 && i > 0 {
					e = st[i-1][1] // flat stage
				}
				st[i] = [2]int{d, e}
			}
			w.write(runC10Staged(c, unit, st, 5+c.rng.Intn(40)))
		}
		// (3) ramps
		for k := 0; k < n; k++ {
			unit := 1 + c.rng.Intn(3)
			maxT := []int{5, 50, 500, 5000}[c.rng.Intn(4)]
			maxD := 400_000_000 / maxT / 2
			if unit == 3 && maxD > 100 {
				maxD = 100
			}
			if unit == 2 && maxD > 100_000 {
				maxD = 100_000
			}
			s, e := c.rng.Intn(maxT+1), c.rng.Intn(maxT+1)
			if s == e {
				e = s + 1
			}
			d := 1 + c.rng.Intn(maxD)
			if c.rng.Intn(5) == 0 {
				d = 1 + c.rng.Intn(4)
			}
			w.write(runC10Ramp(c, unit, s, e, d, 5+c.rng.Intn(40)))
			// the same ramp with its rates given per 2..1000 units: the duration is then rarely a whole number of them
			if k%2 == 0 {
				per := []int{2, 3, 7, 10, 60, 1000}[c.rng.Intn(6)]
				// (a ramp shorter than its rate unit is rejected by design)
				w.write(runC10RampPer(c, unit, per, s, e, per+d+c.rng.Intn(per), 5+c.rng.Intn(40)))
			}
		}
		// (4) long profiles with large targets: stages of minutes and hours (soak tests), targets up to 10^6
		for k := 0; k < n/3; k++ {
			unit := 4 + c.rng.Intn(2)
			maxT := []int{2000, 200_000, 1_000_000}[c.rng.Intn(3)]
			maxD := 400_000_000 / maxT / 2
			if maxD > 2000 {
				maxD = 2000
			}
			ns := 1 + c.rng.Intn(4)
			st := make([][2]int, ns)
			for i := range st {
				st[i] = [2]int{1 + c.rng.Intn(maxD/ns+1), c.rng.Intn(maxT + 1)}
			}
			w.write(runC10Staged(c, unit, st, 20+c.rng.Intn(40)))
			s0, e0 := c.rng.Intn(maxT+1), c.rng.Intn(maxT+1)
			if s0 == e0 {
				e0 = s0 + 1
			}
			w.write(runC10Ramp(c, unit, s0, e0, 1+c.rng.Intn(maxD), 20+c.rng.Intn(40)))
		}
		// (5) through the command line, as the second run on an F1 instance
		for _, kind := range []string{"staged", "ramp"} {
			if tr := runC10CLI(kind); len(tr.Ev) >= 2 || tr.Panicked {
				w.write(tr)
			} else {
				fmt.Println("c10: command-line row", kind, "inconclusive (fewer than two evaluations seen)", tr.Err, len(tr.Ev))
			}
		}
		fmt.Println("c10 traces:", w.n)
		return nil
	})
}
