package main

import (
	"fmt"
	"path/filepath"
	"sync/atomic"
	"time"

	"github.com/form3tech-oss/f1/v2/internal/metrics"
	"github.com/form3tech-oss/f1/v2/internal/options"
	"github.com/form3tech-oss/f1/v2/internal/progress"
	"github.com/form3tech-oss/f1/v2/internal/run"
	"github.com/form3tech-oss/f1/v2/internal/run/views"
	"github.com/form3tech-oss/f1/v2/internal/verifhook"
)

// c05views: the two goroutines of a run that share its Result WHILE triggering is going on - the progress reporter
// (SnapshotProgress; Progress; HasDroppedIterations) and the run goroutine (RecordStarted ... the message saying why
// triggering stopped ... RecordTestFinished) - running freely against each other on the real run.Result. With Go's
// writer-preferring RWMutex a view that takes the read lock twice deadlocks as soon as a writer arrives in between
// (spec/RunLifecycle.tla, mutant StopNoWait); neither goroutine may ever stop making progress.
type c05viewsRow struct {
	Reporter   int64  `json:"reporter_rounds"`
	RunG       int64  `json:"run_rounds"`
	Deadlocked bool   `json:"deadlocked"`
	Where      string `json:"where"`
}

func runC05Views(budget time.Duration) c05viewsRow {
	verifhook.Install(nil)
	stats := &progress.Stats{}
	res := run.NewResult(options.RunOptions{Scenario: "s", MaxDuration: time.Second, Concurrency: 1}, views.New(), stats)
	var a, b atomic.Int64
	var stop atomic.Bool
	go func() {
		for !stop.Load() {
			stats.Record(metrics.SuccessResult, 1000)
			res.SnapshotProgress(time.Second)
			_ = res.Progress()
			_ = res.HasDroppedIterations()
			a.Add(1)
		}
	}()
	go func() {
		for !stop.Load() {
			res.RecordStarted()
			switch b.Load() % 3 {
			case 0:
				_ = res.Interrupted()
			case 1:
				_ = res.MaxDurationElapsed()
			default:
				_ = res.MaxIterationsReached()
			}
			res.RecordTestFinished()
			b.Add(1)
		}
	}()
	row := c05viewsRow{}
	deadline := time.Now().Add(budget)
	la, lb, lastMove := int64(-1), int64(-1), time.Now()
	for time.Now().Before(deadline) {
		time.Sleep(20 * time.Millisecond)
		ca, cb := a.Load(), b.Load()
		if ca != la || cb != lb {
			la, lb, lastMove = ca, cb, time.Now()
			continue
		}
		if time.Since(lastMove) > 2*time.Second {
			row.Deadlocked = true
			row.Where = "neither the progress reporter nor the run goroutine has completed a call on the shared Result for 2 s"
			break
		}
		if row.Deadlocked {
			break
		}
		deadline = deadline.Add(20 * time.Millisecond) // a stall extends the budget until it is resolved either way
		if time.Since(lastMove) > 3*time.Second {
			break
		}
	}
	stop.Store(true)
	row.Reporter, row.RunG = a.Load(), b.Load()
	return row
}

func init() {
	register("c05views", func(c *ctx) error {
		w, err := newNDJSON(filepath.Join(c.out, "c05views.ndjson"))
		if err != nil {
			return err
		}
		defer w.close()
		for k := 0; k < c.pick(2, 6); k++ {
			w.write(runC05Views(time.Duration(c.pick(600, 2500)) * time.Millisecond))
		}
		fmt.Println("c05views rows:", w.n)
		return nil
	})
}
