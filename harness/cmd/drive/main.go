// Command drive is the Go side of the /verif machinery: it drives the REAL f1 code (from /repo's
// working tree, built with -tags verif) and writes ndjson observations/traces that TLC validates
// against the TLA+ specifications, or replays behaviours that TLC generated.
package main

import (
	"bufio"
	"encoding/json"
	"flag"
	"fmt"
	"github.com/form3tech-oss/f1/v2/internal/metrics"
	"math/rand"
	"os"
	"os/signal"
	"sort"
	"sync"
)

type subcmd func(c *ctx) error

var registry = map[string]subcmd{}

func register(name string, f subcmd) { registry[name] = f }

type ctx struct {
	out   string // output directory
	tier  string
	seed  int64
	rng   *rand.Rand
	in    string // optional input file (behaviours from TLC, replay file)
	extra map[string]string
}

func (c *ctx) quick() bool { return c.tier != "thorough" }

// pick returns q for the quick tier and t for the thorough tier.
func (c *ctx) pick(q, t int) int {
	if c.quick() {
		return q
	}
	return t
}

type ndjson struct {
	mu sync.Mutex
	f  *os.File
	w  *bufio.Writer
	n  int
}

func newNDJSON(path string) (*ndjson, error) {
	f, err := os.Create(path)
	if err != nil {
		return nil, err
	}
	return &ndjson{f: f, w: bufio.NewWriterSize(f, 1<<20)}, nil
}

func (n *ndjson) write(v any) {
	b, err := json.Marshal(v)
	if err != nil {
		panic(err)
	}
	n.mu.Lock()
	n.w.Write(b)
	n.w.WriteByte('\n')
	n.n++
	n.mu.Unlock()
}

func (n *ndjson) close() {
	n.w.Flush()
	n.f.Close()
}

func main() {
	if len(os.Args) < 2 {
		names := make([]string, 0, len(registry))
		for k := range registry {
			names = append(names, k)
		}
		sort.Strings(names)
		fmt.Fprintln(os.Stderr, "usage: drive <sub> [-out dir] [-tier quick|thorough] [-seed n] [-in file]; subs:", names)
		os.Exit(2)
	}
	// what f1.New() does first: the process-wide metrics instance that T.Time records its stages into
	metrics.Init(true)
	// runs through the real command line are interrupted the way a user does it (SIGINT to this process): a signal
	// that arrives when no run is listening any more must not end the driver
	signal.Notify(make(chan os.Signal, 64), os.Interrupt)
	sub := os.Args[1]
	fs := flag.NewFlagSet(sub, flag.ExitOnError)
	c := &ctx{extra: map[string]string{}}
	fs.StringVar(&c.out, "out", ".", "output directory")
	fs.StringVar(&c.tier, "tier", "quick", "quick|thorough")
	fs.Int64Var(&c.seed, "seed", 1, "seed")
	fs.StringVar(&c.in, "in", "", "input file")
	var kv multi
	fs.Var(&kv, "x", "extra key=value (repeatable)")
	fs.Parse(os.Args[2:])
	for _, s := range kv {
		for i := 0; i < len(s); i++ {
			if s[i] == '=' {
				c.extra[s[:i]] = s[i+1:]
				break
			}
		}
	}
	c.rng = rand.New(rand.NewSource(c.seed))
	f, ok := registry[sub]
	if !ok {
		fmt.Fprintln(os.Stderr, "unknown sub-command", sub)
		os.Exit(2)
	}
	if err := os.MkdirAll(c.out, 0o755); err != nil {
		fmt.Fprintln(os.Stderr, err)
		os.Exit(2)
	}
	if err := f(c); err != nil {
		fmt.Fprintln(os.Stderr, "drive", sub, "failed:", err)
		os.Exit(2)
	}
}

type multi []string

func (m *multi) String() string     { return fmt.Sprint(*m) }
func (m *multi) Set(s string) error { *m = append(*m, s); return nil }
