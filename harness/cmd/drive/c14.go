package main

import (
	"context"
	"encoding/json"
	"fmt"
	"os"
	"os/exec"
	"path/filepath"
	"strings"
	"sync"
	"sync/atomic"
	"time"

	"github.com/form3tech-oss/f1/v2/internal/options"
	"github.com/form3tech-oss/f1/v2/internal/trigger/api"
	"github.com/form3tech-oss/f1/v2/internal/trigger/constant"
	"github.com/form3tech-oss/f1/v2/internal/trigger/gaussian"
	"github.com/form3tech-oss/f1/v2/internal/trigger/ramp"
	"github.com/form3tech-oss/f1/v2/internal/trigger/rate"
	"github.com/form3tech-oss/f1/v2/internal/trigger/staged"
	"github.com/form3tech-oss/f1/v2/pkg/f1"
	f1testing "github.com/form3tech-oss/f1/v2/pkg/f1/testing"
)

// C14 observations: every input is rejected with an error or yields a trigger that runs.
type c14rate struct {
	Kind     string   `json:"kind"`
	Chars    []string `json:"chars"`
	Str      string   `json:"str"`
	Accepted bool     `json:"accepted"`
	Panicked bool     `json:"panicked"`
	Rate     int      `json:"rate"`
	Ms       int64    `json:"ms"`
	Ns       int64    `json:"ns"`
	Fits     bool     `json:"fits"`
	Msg      string   `json:"msg,omitempty"`
}

type c14trig struct {
	Kind       string `json:"kind"`
	Front      string `json:"front"` // which front end
	Input      string `json:"input"`
	Accepted   bool   `json:"accepted"`
	Panicked   bool   `json:"panicked"`
	IntervalOK bool   `json:"interval_ok"`
	Workers    int    `json:"workers"`
	RanOK      bool   `json:"ran_ok"`
	SetupRan   bool   `json:"setup_ran"`
	RateOK     bool   `json:"rate_ok"` // sampled values of the rate function are finite, sane numbers
	Msg        string `json:"msg,omitempty"`
}

func c14chars(s string) []string {
	out := make([]string, 0, len(s))
	for _, r := range s {
		out = append(out, string(r))
	}
	return out
}

func c14fits(s string) bool {
	i := strings.Index(s, "/")
	if i < 0 {
		return len(s) <= 7
	}
	tail := s[i+1:]
	digits := 0
	for _, r := range tail {
		if r >= '0' && r <= '9' {
			digits++
		}
	}
	if strings.HasSuffix(tail, "h") {
		return i <= 7 && digits <= 2
	}
	return i <= 7 && digits <= 3
}

func c14rateRow(s string) (row c14rate) {
	row = c14rate{Kind: "rate", Chars: c14chars(s), Str: s, Fits: c14fits(s)}
	defer func() {
		if r := recover(); r != nil {
			row.Panicked = true
			row.Msg = fmt.Sprint(r)
		}
	}()
	n, unit, err := rate.ParseRate(s)
	if err != nil {
		return row
	}
	row.Accepted = true
	row.Rate = n
	row.Ms = int64(unit / time.Millisecond)
	row.Ns = int64(unit % time.Millisecond)
	if unit < 0 {
		row.Ms, row.Ns = -1, 0
	}
	return row
}

type c14ramp struct {
	Kind       string   `json:"kind"`
	StartChars []string `json:"start_chars"`
	EndChars   []string `json:"end_chars"`
	Str        string   `json:"str"`
	Fits       bool     `json:"fits"`
	Accepted   bool     `json:"accepted"`
	Panicked   bool     `json:"panicked"`
	Ms         int64    `json:"ms"`
	Ns         int64    `json:"ns"`
	First      int      `json:"first"`
	Last       int      `json:"last"`
	Msg        string   `json:"msg,omitempty"`
}

// c14rampRow: what a ramp between two rate spellings turns into (distribution none, jitter 0, a 2 h ramp)
func c14rampRow(start, end string) (row c14ramp) {
	row = c14ramp{Kind: "ramp", StartChars: c14chars(start), EndChars: c14chars(end), Str: start + " -> " + end, Fits: c14fits(start) && c14fits(end)}
	defer func() {
		if r := recover(); r != nil {
			row.Panicked = true
			row.Msg = fmt.Sprint(r)
		}
	}()
	dur := 2 * time.Hour
	rates, err := ramp.CalculateRampRate(start, end, "none", dur, 0)
	if err != nil {
		row.Msg = err.Error()
		return row
	}
	row.Accepted = true
	row.Ms = int64(rates.IterationDuration / time.Millisecond)
	row.Ns = int64(rates.IterationDuration % time.Millisecond)
	t0 := time.Unix(1_700_000_000, 0)
	row.First = rates.Rate(t0)
	row.Last = rates.Rate(t0.Add(dur))
	return row
}

// tryRates exercises an accepted rate function / trigger for a few ticks on a real pool.
func c14runTrigger(front, input string, trig *api.Trigger, conc int) (row c14trig) {
	row = c14trig{Kind: "trigger", Front: front, Input: input, Accepted: true, Workers: conc, IntervalOK: true, RateOK: true}
	var setup, iters atomic.Int64
	fn := func(t *f1testing.T) f1testing.RunFn {
		setup.Add(1)
		return func(*f1testing.T) { iters.Add(1) }
	}
	done := make(chan struct{})
	go func() {
		defer close(done)
		defer func() {
			if r := recover(); r != nil {
				row.Panicked = true
				row.Msg = fmt.Sprint(r)
			}
		}()
		sr := simpleRun{Concurrency: conc, MaxDuration: 60 * time.Millisecond, WaitTimeout: time.Second}
		_, _, err := sr.doTrigger(context.Background(), fn, trig)
		if err != nil {
			row.Msg = err.Error()
		}
		row.RanOK = err == nil
	}()
	select {
	case <-done:
	case <-time.After(5 * time.Second):
		row.Msg = "run did not return"
		row.RanOK = false
	}
	row.SetupRan = setup.Load() > 0
	return row
}

func c14constructed(front, input string, build func() (*api.Rates, error)) (row c14trig) {
	row = c14trig{Kind: "trigger", Front: front, Input: input, Workers: 1, RateOK: true}
	var rates *api.Rates
	var err error
	func() {
		defer func() {
			if r := recover(); r != nil {
				row.Panicked = true
				row.Msg = fmt.Sprint(r)
			}
		}()
		rates, err = build()
	}()
	if row.Panicked || err != nil {
		if err != nil {
			row.Msg = err.Error()
		}
		return row
	}
	trig := &api.Trigger{Trigger: api.NewIterationWorker(rates.IterationDuration, rates.Rate), DryRun: rates.Rate, Duration: rates.Duration}
	r2 := c14runTrigger(front, input, trig, 2)
	r2.IntervalOK = rates.IterationDuration > 0
	// a usable rate function: a fresh instance sampled over a few seconds returns finite, sane numbers
	func() {
		defer func() {
			if r := recover(); r != nil {
				r2.RateOK = false
				r2.Msg += " rate function panicked: " + fmt.Sprint(r)
			}
		}()
		if fresh, err := build(); err == nil {
			t0 := time.Now()
			for k := 0; k < 40; k++ {
				v := fresh.Rate(t0.Add(time.Duration(k) * 77 * time.Millisecond))
				if v < -1_000_000_000 || v > 1_000_000_000_000 {
					r2.RateOK = false
					r2.Msg += fmt.Sprintf(" rate function returned %d", v)
					break
				}
			}
		}
	}()
	return r2
}

// child process: the real CLI
func c14child(self, front string, args []string, yaml string) (row c14trig) {
	row = c14trig{Kind: "trigger", Front: front, Input: strings.Join(args, " "), Workers: 1, IntervalOK: true, RateOK: true}
	if yaml != "" {
		row.Input = yaml
	}
	// the number of workers the input asks for (accepted with fewer than one is not a runnable trigger)
	src := strings.Join(args, " ")
	if yaml != "" {
		src = yaml
	}
	for _, key := range []string{"--concurrency ", "concurrency: "} {
		if i := strings.Index(src, key); i >= 0 {
			fmt.Sscan(src[i+len(key):], &row.Workers)
		}
	}
	b, _ := json.Marshal(map[string]any{"args": args, "yaml": yaml})
	cmd := exec.Command(self, "c14cli", "-x", "case="+string(b))
	cmd.Env = append(os.Environ(), "LOG_FILE_PATH="+os.DevNull)
	out, err := cmd.CombinedOutput()
	o := string(out)
	idx := strings.LastIndex(o, "C14CLI ")
	if idx >= 0 {
		var res struct {
			Err      string `json:"err"`
			SetupRan bool   `json:"setup_ran"`
			Iters    int64  `json:"iters"`
		}
		if json.Unmarshal([]byte(strings.TrimSpace(o[idx+7:])), &res) == nil {
			row.SetupRan = res.SetupRan
			row.Accepted = res.SetupRan
			row.RanOK = res.Err == "" || !strings.Contains(res.Err, "panic")
			row.Msg = res.Err
			return row
		}
	}
	// no result line: the process died
	row.Panicked = true
	row.SetupRan = strings.Contains(o, "C14SETUP")
	row.Accepted = row.SetupRan
	tail := o
	if len(tail) > 400 {
		tail = tail[:400]
	}
	row.Msg = fmt.Sprintf("process died (%v): %s", err, tail)
	return row
}

func init() {
	register("c14cli", func(c *ctx) error {
		var cs struct {
			Args []string `json:"args"`
			Yaml string   `json:"yaml"`
		}
		if err := json.Unmarshal([]byte(c.extra["case"]), &cs); err != nil {
			return err
		}
		args := cs.Args
		if cs.Yaml != "" {
			p := filepath.Join(os.TempDir(), fmt.Sprintf("c14-%d.yaml", os.Getpid()))
			os.WriteFile(p, []byte(cs.Yaml), 0o600)
			defer os.Remove(p)
			args = []string{"run", "file", p}
		}
		var setup, iters atomic.Int64
		fn := func(t *f1testing.T) f1testing.RunFn {
			setup.Add(1)
			fmt.Println("C14SETUP")
			return func(*f1testing.T) { iters.Add(1) }
		}
		done := make(chan error, 1)
		go func() { done <- f1.New().WithLogger(discardLogger()).Add("scn", fn).ExecuteWithArgs(args) }()
		var err error
		select {
		case err = <-done:
		case <-time.After(4 * time.Second):
			err = fmt.Errorf("did not return in 4s")
		}
		es := ""
		if err != nil {
			es = err.Error()
		}
		b, _ := json.Marshal(map[string]any{"err": es, "setup_ran": setup.Load() > 0, "iters": iters.Load()})
		fmt.Println("C14CLI " + string(b))
		return nil
	})
	register("c14", func(c *ctx) error {
		w, err := newNDJSON(filepath.Join(c.out, "c14.ndjson"))
		if err != nil {
			return err
		}
		defer w.close()
		self, _ := os.Executable()
		// (a) every rate string up to length 5 (quick: 4) over a 10-symbol alphabet with near-misses
		alpha := []string{"0", "1", "5", "/", ".", "s", "m", "h", "-", " "}
		maxLen := c.pick(4, 5)
		var gen func(prefix string, n int)
		gen = func(prefix string, n int) {
			if prefix != "" {
				w.write(c14rateRow(prefix))
			}
			if n == maxLen {
				return
			}
			for _, a := range alpha {
				gen(prefix+a, n+1)
			}
		}
		gen("", 0)
		for _, s := range []string{"", "10/250us", "2/1.5ms", "7/1.5m", "100/2h", "3/.5s", "12/0.25s", "5/", "/s", "1/0s", "1/0", "9/us", "4/ns", "8/100ms",
			"1/-1s", "+5/s", "5/+1s", "1/1s1ms", "3/1m30s", "07/s", "5/µs", "1/1e3s", "999999/s", "1/.s", "1/.", "1//s", "1/s/s", " 5/s", "5/s ", "5 /s"} {
			w.write(c14rateRow(s))
		}
		// (a2) every pair of a few rate spellings as the start and end rate of a ramp
		rampRates := []string{"0", "0/s", "5", "5/s", "10/100ms", "600/m", "3/2s", "1/500ms", "0/100ms", "7/1s", "5/"}
		for _, a := range rampRates {
			for _, b := range rampRates {
				w.write(c14rampRow(a, b))
			}
		}
		// (b) constructors with accepted/near-miss parameters
		dists := []string{"none", "regular", "random", "bogus", ""}
		for _, rs := range []string{"5/s", "1/0s", "3/.5s", "5/", "0/s", "2/100ms", "2/50ms", "1/-1s", "10/1ns", "1/0.0s"} {
			for _, d := range dists {
				rs, d := rs, d
				w.write(c14constructed("constant", fmt.Sprintf("rate=%q dist=%q", rs, d), func() (*api.Rates, error) {
					return constant.CalculateConstantRate(0, rs, d)
				}))
			}
		}
		for _, st := range []string{"0s:1,10s:1", "1s:5", "", ":", "1s:", ":5", "1s:5,", ",1s:5", "1s:5;2s:6", "1s:-5", "-1s:5", "0s:0", "1s:5, 2s:0", "1x:5", "1s:5:6", " 1s : 5 ", "1s:5.5", "1h:100000"} {
			for _, f := range []time.Duration{time.Second, 100 * time.Millisecond, 10 * time.Millisecond, 0, -time.Second} {
				st, f := st, f
				w.write(c14constructed("staged", fmt.Sprintf("stages=%q freq=%s", st, f), func() (*api.Rates, error) {
					return staged.CalculateStagedRate(0, f, st, "none", nil)
				}))
			}
		}
		for _, p := range [][3]string{{"1/s", "5/s", "1s"}, {"1/s", "1/s", "1s"}, {"1/s", "5/100ms", "1s"}, {"5/100ms", "1/100ms", "50ms"}, {"0/s", "5/s", "0s"},
			{"1/0s", "5/0s", "1s"}, {"1/", "5/", "1s"}, {"5/s", "1/s", "-1s"}, {"2/10ms", "9/10ms", "30ms"}} {
			p := p
			w.write(c14constructed("ramp", fmt.Sprintf("start=%q end=%q dur=%s", p[0], p[1], p[2]), func() (*api.Rates, error) {
				d, _ := time.ParseDuration(p[2])
				return ramp.CalculateRampRate(p[0], p[1], "none", d, 0)
			}))
		}
		type gp struct {
			vol                    float64
			repeat, freq, peak, sd time.Duration
			weights, dist          string
		}
		for _, g := range []gp{{1000, time.Second, 10 * time.Millisecond, 500 * time.Millisecond, 100 * time.Millisecond, "", "none"},
			{1000, time.Second, 0, 500 * time.Millisecond, 100 * time.Millisecond, "", "none"},
			{1000, time.Second, -10 * time.Millisecond, 500 * time.Millisecond, 100 * time.Millisecond, "", "none"},
			{1000, 0, 10 * time.Millisecond, 500 * time.Millisecond, 100 * time.Millisecond, "", "none"},
			{1000, time.Second, 10 * time.Millisecond, 500 * time.Millisecond, 0, "", "none"},
			{1000, time.Second, 10 * time.Millisecond, 500 * time.Millisecond, 0, "", "random"},
			{1000, time.Second, 200 * time.Millisecond, 500 * time.Millisecond, 0, "", "regular"},
			{1000, time.Second, 10 * time.Millisecond, 500 * time.Millisecond, -100 * time.Millisecond, "", "none"},
			{1000, time.Second, 10 * time.Millisecond, 500 * time.Millisecond, 100 * time.Millisecond, "a,b", "none"},
			{1000, time.Second, 10 * time.Millisecond, 500 * time.Millisecond, 100 * time.Millisecond, ",,", "regular"},
			{1000, time.Second, 10 * time.Millisecond, 500 * time.Millisecond, 100 * time.Millisecond, "1,0,2", "random"},
			{0, time.Second, 10 * time.Millisecond, 500 * time.Millisecond, 100 * time.Millisecond, "0,0", "none"},
			{-5, time.Second, 10 * time.Millisecond, 5 * time.Second, 100 * time.Millisecond, "", "none"},
			{1000, 100 * time.Millisecond, 200 * time.Millisecond, 50 * time.Millisecond, 100 * time.Millisecond, "", "none"}} {
			g := g
			w.write(c14constructed("gaussian", fmt.Sprintf("%+v", g), func() (*api.Rates, error) {
				return gaussian.CalculateGaussianRate(g.vol, 0, g.repeat, g.freq, g.peak, g.sd, g.weights, g.dist)
			}))
		}
		// (c) the real CLI and config files, each in a child process
		var clis [][]string
		base := []string{"--max-duration", "120ms", "-v"}
		for _, a := range [][]string{
			{"run", "constant", "-r", "5/10ms"}, {"run", "constant", "-r", "5/"}, {"run", "constant", "-r", "1/0s"}, {"run", "constant", "-r", "1/-1s"},
			{"run", "constant", "-r", "5/10ms", "--concurrency", "0"}, {"run", "constant", "-r", "5/10ms", "--concurrency", "-3"},
			{"run", "constant", "-r", "5/10ms", "--distribution", "bogus"}, {"run", "constant", "-r", "5/10ms", "--jitter", "-50"},
			{"run", "constant", "-r", "5/10ms", "--jitter", "500"}, {"run", "constant", "-r", "3/.5s"},
			{"run", "staged", "-s", "0s:3,100ms:3", "-f", "10ms"}, {"run", "staged", "-s", "0s:3,100ms:3", "-f", "0s"}, {"run", "staged", "-s", "0s:3,100ms:3", "-f", "-1s"},
			{"run", "staged", "-s", "", "-f", "10ms"}, {"run", "staged", "-s", "1s", "-f", "10ms"}, {"run", "staged", "-s", "0s:3,100ms:3", "-f", "10ms", "--startTime", "garbage"},
			{"run", "ramp", "-s", "1/10ms", "-e", "5/10ms", "-r", "100ms"}, {"run", "ramp", "-s", "1/10ms", "-e", "5/10ms", "-r", "0s"},
			{"run", "ramp", "-s", "1/0s", "-e", "5/0s", "-r", "100ms"}, {"run", "ramp", "-s", "1/10ms", "-e", "5/20ms", "-r", "100ms"},
			{"run", "gaussian", "--volume", "500", "--repeat", "1s", "--iteration-frequency", "10ms", "--peak", "500ms", "--standard-deviation", "100ms"},
			{"run", "gaussian", "--volume", "500", "--repeat", "1s", "--iteration-frequency", "0s", "--peak", "500ms", "--standard-deviation", "100ms"},
			{"run", "gaussian", "--volume", "500", "--repeat", "0s", "--iteration-frequency", "10ms", "--peak", "500ms", "--standard-deviation", "100ms"},
			{"run", "gaussian", "--volume", "500", "--repeat", "1s", "--iteration-frequency", "10ms", "--peak", "500ms", "--standard-deviation", "0s"},
			{"run", "gaussian", "--peak-rate", "5/", "--repeat", "1s", "--iteration-frequency", "10ms"},
			{"run", "gaussian", "--peak-rate", "5/10ms", "--repeat", "1s", "--iteration-frequency", "10ms", "--peak", "500ms", "--standard-deviation", "100ms"},
			{"run", "users"}, {"run", "users", "--concurrency", "0"}, {"run", "users", "--max-iterations", "3"},
		} {
			clis = append(clis, append(append([]string{}, a...), append(base, "scn")...))
		}
		// every trigger with one flag at a time set to an unusable or borderline value
		valid := map[string][]string{
			"constant": {"run", "constant", "-r", "5/10ms"},
			"staged":   {"run", "staged", "-s", "0s:3,100ms:3", "-f", "10ms"},
			"ramp":     {"run", "ramp", "-s", "1/10ms", "-e", "5/10ms", "-r", "100ms"},
			"gaussian": {"run", "gaussian", "--volume", "500", "--repeat", "1s", "--iteration-frequency", "10ms", "--peak", "500ms", "--standard-deviation", "100ms"},
			"users":    {"run", "users"},
		}
		perTrigger := map[string][][]string{
			"constant": {{"--jitter", "100"}, {"--jitter", "abc"}, {"--distribution", "regular"}, {"--distribution", "random"}, {"--distribution", ""}},
			"staged": {{"--jitter", "-50"}, {"--jitter", "100"}, {"--distribution", "bogus"}, {"--distribution", "random"},
				// a start of the stage calculation that lies in the future / long ago (the flag's own peculiar layout), and one
				// that is not a time at all
				{"--startTime", "2099-01-01T00:00:00+07:00"}, {"--startTime", "2001-01-01T00:00:00+07:00"}, {"--startTime", "tomorrow"},
				{"-s", "0s:0,168h:50000", "-f", "20ms"},
				// a profile that dips below zero, spread over sub-ticks (interval > 100 ms so that the distribution is active)
				{"-s", "0s:6,300ms:-6,300ms:-6", "-f", "200ms", "--distribution", "random", "--max-duration", "900ms"},
				{"-s", "0s:6,300ms:-6,300ms:-6", "-f", "200ms", "--distribution", "regular", "--max-duration", "900ms"},
				{"-s", "0s:6,300ms:-6,300ms:6", "-f", "200ms", "--distribution", "none", "--max-duration", "900ms"}},
			"ramp": {{"--jitter", "-50"}, {"--jitter", "250"}, {"--distribution", "bogus"}, {"-r", "-100ms"}},
			"gaussian": {{"--weights", "1,a"}, {"--weights", "0,0"}, {"--weights", "-1,1"}, {"--peak", "-1s"}, {"--peak", "5s"},
				{"--standard-deviation", "-1s"}, {"--volume", "-5"}, {"--volume", "0"}, {"--jitter", "-50"}, {"--distribution", "bogus"},
				{"--iteration-frequency", "-10ms"}, {"--iteration-frequency", "2s"}, {"--repeat", "-1s"},
				{"--volume", "-5000", "--iteration-frequency", "200ms", "--distribution", "random", "--max-duration", "900ms"},
				{"--volume", "-5000", "--iteration-frequency", "200ms", "--distribution", "regular", "--max-duration", "900ms"},
				{"--weights", "-1,3", "--iteration-frequency", "200ms", "--distribution", "random", "--max-duration", "900ms"}},
			"users": {},
		}
		runLevel := [][]string{{"--max-duration", "0s"}, {"--max-duration", "-1s"}, {"--max-duration", "5ms"}, {"--max-duration", "10ms"},
			{"--max-failures-rate", "-5"}, {"--max-failures-rate", "150"}, {"--max-iterations", "0"}, {"--concurrency", "1"},
			{"--concurrency", "-1"}, {"--concurrency", "0"},
			// every value the flag's type admits (math.MaxUint64 as "no limit" is an obvious thing to write), and values
			// around the concurrency
			{"--max-iterations", "1", "--concurrency", "3"}, {"--max-iterations", "9223372036854775807"},
			{"--max-iterations", "9223372036854775808"}, {"--max-iterations", "18446744073709551615"}, {"--max-iterations", "-1"},
			{"--max-failures", "18446744073709551615"}, {"--concurrency", "100000"}}
		for _, trg := range []string{"constant", "staged", "ramp", "gaussian", "users"} {
			for _, extra := range append(append([][]string{}, perTrigger[trg]...), runLevel...) {
				a := append(append([]string{}, valid[trg]...), extra...)
				hasDur := false
				for _, x := range extra {
					hasDur = hasDur || x == "--max-duration"
				}
				if !hasDur {
					a = append(a, "--max-duration", "120ms")
				}
				clis = append(clis, append(a, "-v", "scn"))
			}
		}
		yamls := append(c14yamls(), c14matrix()...)
		type job struct {
			front string
			args  []string
			yaml  string
		}
		var jobs []job
		for _, a := range clis {
			jobs = append(jobs, job{"cli", a, ""})
		}
		for _, y := range yamls {
			jobs = append(jobs, job{"yaml", nil, y})
		}
		rows := make([]c14trig, len(jobs))
		var wg sync.WaitGroup
		sem := make(chan struct{}, 12)
		for i, j := range jobs {
			wg.Add(1)
			sem <- struct{}{}
			go func(i int, j job) {
				defer wg.Done()
				defer func() { <-sem }()
				rows[i] = c14child(self, j.front, j.args, j.yaml)
			}(i, j)
		}
		wg.Wait()
		for _, r := range rows {
			w.write(r)
		}
		_ = options.RunOptions{}
		fmt.Println("c14 observations:", w.n)
		return nil
	})
}

// c14yamls: a valid two-stage config and structural mutations of it (missing fields, zero/negative values,
// nil jitter, bad modes).
func c14yamls() []string {
	head := func(conc, maxdur, extra string) string {
		return "scenario: scn\nlimits:\n  max-duration: " + maxdur + "\n  concurrency: " + conc + "\n  max-iterations: 0\n  ignore-dropped: true\n" + extra
	}
	def := "default:\n  mode: constant\n  distribution: none\n  jitter: 0\n  duration: 60ms\n"
	defNoJitter := "default:\n  mode: constant\n  distribution: none\n  duration: 60ms\n"
	st := "stages:\n- rate: 3/10ms\n- mode: users\n  concurrency: 2\n"
	out := []string{
		head("4", "300ms", "") + def + st,
		head("4", "300ms", "") + defNoJitter + st, // jitter nowhere
		head("0", "300ms", "") + def + st,         // zero workers
		head("-2", "300ms", "") + def + st,
		head("4", "300ms", "") + def + "stages:\n- rate: 3/10ms\n- mode: users\n  concurrency: 0\n", // users stage with 0 users
		head("4", "300ms", "") + def + "stages:\n- rate: 5/\n",
		head("4", "300ms", "") + def + "stages:\n- rate: 1/0s\n",
		head("4", "300ms", "") + def + "stages:\n- mode: staged\n  stages: 0s:2,50ms:2\n  iteration-frequency: 0s\n",
		head("4", "300ms", "") + def + "stages:\n- mode: staged\n  stages: 0s:2,50ms:2\n  iteration-frequency: 10ms\n",
		head("4", "300ms", "") + def + "stages:\n- mode: ramp\n  start-rate: 1/10ms\n  end-rate: 4/10ms\n",
		head("4", "300ms", "") + def + "stages:\n- mode: ramp\n  start-rate: 1/10ms\n  end-rate: 4/10ms\n  duration: 0s\n",
		head("4", "300ms", "") + def + "stages:\n- mode: gaussian\n  volume: 100\n  repeat: 1s\n  iteration-frequency: 10ms\n  peak: 500ms\n  weights: \"\"\n  standard-deviation: 100ms\n",
		head("4", "300ms", "") + def + "stages:\n- mode: gaussian\n  volume: 100\n  repeat: 1s\n  iteration-frequency: 0s\n  peak: 500ms\n  weights: \"\"\n  standard-deviation: 100ms\n",
		head("4", "300ms", "") + def + "stages:\n- mode: nosuchmode\n",
		head("4", "300ms", "") + def + "stages: []\n",
		head("4", "300ms", "") + def,
		head("4", "300ms", "") + "stages:\n- rate: 3/10ms\n", // no default at all
		head("4", "0s", "") + def + st,
		head("4", "-1s", "") + def + st,
		"scenario: scn\n" + def + st, // no limits
		"limits: 5\n",
		"- a\n- b\n",
		"scenario: [1,2]\n",
		"\x00\x01\x02",
		"",
		head("4", "300ms", "") + def + "stages:\n- rate: 3/10ms\n  duration: -50ms\n",
		head("4", "300ms", "") + def + "stages:\n- rate: 3/10ms\n  distribution: bogus\n",
		head("4", "300ms", "schedule:\n  stage-start: notatime\n") + def + st,
	}
	return out
}

// c14matrix: for every stage mode, every field that mode reads, each of the two places the field may be
// written (the stage itself or the default section it is inherited from) and each unusable value of it
// (or no value anywhere): one config file.  Everything else in the file is valid.
func c14matrix() []string {
	type fld struct {
		k, good string
		bad     []string
	}
	common := []fld{
		{"distribution", "none", []string{"bogus"}},
		{"jitter", "0", []string{"-5", "abc"}},
		{"duration", "60ms", []string{"0s", "-50ms"}},
	}
	modes := []struct {
		name string
		f    []fld
	}{
		{"constant", append([]fld{{"rate", "3/10ms", []string{"5/", "1/0s", "x", "-1/s"}}}, common...)},
		{"staged", append([]fld{{"stages", "0s:2,50ms:2", []string{"0s", "5ms:-1", "a:b"}},
			{"iteration-frequency", "10ms", []string{"0s", "-10ms"}}}, common...)},
		{"ramp", append([]fld{{"start-rate", "1/10ms", []string{"5/", "x"}}, {"end-rate", "4/10ms", []string{"5/", "1/0s"}}}, common...)},
		{"gaussian", append([]fld{{"volume", "100", []string{"-5", "abc"}}, {"repeat", "1s", []string{"0s", "-1s"}},
			{"iteration-frequency", "10ms", []string{"0s", "-10ms"}}, {"peak", "500ms", []string{"-1s"}},
			{"weights", "\"\"", []string{"\"1,a\"", "\"0,0\"", "\"-1,1\""}}, {"standard-deviation", "100ms", []string{"0s", "-1s"}}}, common...)},
		{"users", []fld{{"concurrency", "2", []string{"0", "-3"}}, {"duration", "60ms", []string{"0s", "-50ms"}}}},
	}
	head := "scenario: scn\nlimits:\n  max-duration: 300ms\n  concurrency: 4\n  max-iterations: 0\n  ignore-dropped: true\n"
	var out []string
	for _, m := range modes {
		for fi, f := range m.f {
			for _, level := range []string{"stage", "default"} {
				for _, v := range append([]string{"<absent>"}, f.bad...) {
					if v == "<absent>" && level == "default" {
						continue // same file as absent at stage level
					}
					def := "default:\n  mode: constant\n"
					st := "stages:\n- mode: " + m.name + "\n"
					for gi, g := range m.f {
						if gi != fi {
							st += "  " + g.k + ": " + g.good + "\n"
						}
					}
					if v != "<absent>" {
						if level == "stage" {
							st += "  " + f.k + ": " + v + "\n"
						} else {
							def += "  " + f.k + ": " + v + "\n"
						}
					}
					out = append(out, head+def+st)
				}
			}
		}
	}
	return out
}
