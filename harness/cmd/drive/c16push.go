package main

import (
	"bytes"
	"context"
	"fmt"
	"io"
	"net/http"
	"net/http/httptest"
	"path/filepath"
	"sort"
	"strings"
	"sync"
	"sync/atomic"
	"time"

	"github.com/prometheus/client_golang/prometheus"
	dto "github.com/prometheus/client_model/go"
	"github.com/prometheus/common/expfmt"

	"github.com/form3tech-oss/f1/v2/internal/envsettings"
	"github.com/form3tech-oss/f1/v2/internal/metrics"
	"github.com/form3tech-oss/f1/v2/internal/options"
	"github.com/form3tech-oss/f1/v2/internal/run"
	"github.com/form3tech-oss/f1/v2/internal/trigger/users"
	"github.com/form3tech-oss/f1/v2/internal/ui"
	"github.com/form3tech-oss/f1/v2/pkg/f1/scenarios"
	f1testing "github.com/form3tech-oss/f1/v2/pkg/f1/testing"
)

// C16 as the push gateway sees it: a minimal gateway with the real one's semantics (PUT replaces the whole group, POST
// only the metric families present in the push, DELETE removes the group; the grouping key is the set of label pairs in
// the path, in any order). Consecutive runs of one scenario on one metrics instance push to it; after each run one row
// says what the gateway holds for the run's group next to what the run's result reports.
type c16gateway struct {
	mu     sync.Mutex
	groups map[string]map[string]*dto.MetricFamily
	puts   int
	posts  int
	delay  atomic.Int64 // nanoseconds every request takes to be answered (a slow gateway)
}

func (g *c16gateway) key(path string) string {
	p := strings.Split(strings.Trim(strings.TrimPrefix(path, "/metrics/"), "/"), "/")
	var kv []string
	for i := 0; i+1 < len(p); i += 2 {
		kv = append(kv, p[i]+"="+p[i+1])
	}
	sort.Strings(kv)
	return strings.Join(kv, ",")
}

func (g *c16gateway) ServeHTTP(w http.ResponseWriter, r *http.Request) {
	k := g.key(r.URL.Path)
	body, _ := io.ReadAll(r.Body)
	if d := g.delay.Load(); d > 0 {
		time.Sleep(time.Duration(d))
	}
	r.Body = io.NopCloser(bytes.NewReader(body))
	g.mu.Lock()
	defer g.mu.Unlock()
	switch r.Method {
	case http.MethodDelete:
		delete(g.groups, k)
	case http.MethodPut, http.MethodPost:
		fams := map[string]*dto.MetricFamily{}
		dec := expfmt.NewDecoder(r.Body, expfmt.ResponseFormat(r.Header))
		for {
			mf := &dto.MetricFamily{}
			if err := dec.Decode(mf); err != nil {
				if err != io.EOF {
					http.Error(w, err.Error(), http.StatusBadRequest)
					return
				}
				break
			}
			fams[mf.GetName()] = mf
		}
		if r.Method == http.MethodPut {
			g.puts++
			g.groups[k] = fams
		} else {
			g.posts++
			if g.groups[k] == nil {
				g.groups[k] = map[string]*dto.MetricFamily{}
			}
			for n, mf := range fams {
				g.groups[k][n] = mf
			}
		}
	}
	w.WriteHeader(http.StatusOK)
}

type c16pushRow struct {
	Seq       string `json:"seq"`
	Run       int    `json:"run"`
	Kind      string `json:"kind"` // what this run was: pass | mixed | setupfail | interrupted
	S         int64  `json:"s"`
	F         int64  `json:"f"`
	D         int64  `json:"d"`
	SetupOK   bool   `json:"setup_ok"`
	GSucc     int64  `json:"g_success"`
	GFail     int64  `json:"g_fail"`
	GDropped  int64  `json:"g_dropped"`
	GOther    int64  `json:"g_other"` // iteration samples under any other result label
	GSetupOK  int64  `json:"g_setup_success"`
	GSetupBad int64  `json:"g_setup_fail"`
	Groups    int    `json:"groups"`
	Pushes    int    `json:"pushes"`
	Err       string `json:"err"`
}

func c16pushSeq(seq []string, labels map[string]string) []c16pushRow {
	gw := &c16gateway{groups: map[string]map[string]*dto.MetricFamily{}}
	srv := httptest.NewServer(gw)
	defer srv.Close()
	m := metrics.NewInstance(prometheus.NewRegistry(), true, labels)
	settings := envsettings.Settings{Prometheus: envsettings.Prometheus{PushGateway: srv.URL, Namespace: "ns", LabelID: "id-1"}}
	var rows []c16pushRow
	for k, kind := range seq {
		row := c16pushRow{Seq: strings.Join(seq, ","), Run: k + 1, Kind: kind, SetupOK: kind != "setupfail"}
		fn := func(t *f1testing.T) f1testing.RunFn {
			if kind == "setupfail" {
				t.FailNow()
			}
			return func(t *f1testing.T) {
				var id int
				fmt.Sscan(t.Iteration, &id)
				if kind == "mixed" && id%3 == 0 {
					t.Fail()
				}
				if kind == "long" {
					time.Sleep(10 * time.Millisecond)
				}
			}
		}
		scn := scenarios.New().Add(&scenarios.Scenario{Name: "scn", ScenarioFn: fn})
		trig, err := users.Rate().New(users.Rate().Flags)
		if err != nil {
			row.Err = err.Error()
			rows = append(rows, row)
			continue
		}
		o := options.RunOptions{Scenario: "scn", MaxDuration: 5 * time.Second, Concurrency: 2, MaxIterations: uint64(6 + 3*k)}
		gw.delay.Store(0)
		if kind == "long" {
			// the run is over while the periodic push of the 5 s refresh is still waiting for a slow gateway: what the
			// gateway ends up with is still the final state
			o.MaxDuration, o.MaxIterations = 5300*time.Millisecond, 0
			gw.delay.Store(int64(800 * time.Millisecond))
		}
		ctx, cancel := context.WithCancel(context.Background())
		if kind == "interrupted" {
			cancel() // interrupted before its first iteration
		}
		rn, err := run.NewRun(o, scn, trig, 2*time.Second, settings, m, ui.NewDiscardOutput())
		if err != nil {
			cancel()
			row.Err = err.Error()
			rows = append(rows, row)
			continue
		}
		res, err := rn.Do(ctx)
		cancel()
		if err != nil {
			row.Err = err.Error()
			rows = append(rows, row)
			continue
		}
		sn := res.Snapshot()
		row.S, row.F, row.D = int64(sn.SuccessfulIterationDurations.Count), int64(sn.FailedIterationDurations.Count), int64(sn.DroppedIterationCount)
		gw.mu.Lock()
		row.Groups, row.Pushes = len(gw.groups), gw.puts+gw.posts
		for _, fams := range gw.groups {
			for name, mf := range fams {
				for _, mt := range mf.GetMetric() {
					n := int64(mt.GetSummary().GetSampleCount())
					res := labelOf(mt, "result")
					switch {
					case name == "form3_loadtest_iteration" && labelOf(mt, "stage") == "iteration":
						switch res {
						case "success":
							row.GSucc += n
						case "fail":
							row.GFail += n
						case "dropped":
							row.GDropped += n
						default:
							row.GOther += n
						}
					case name == "form3_loadtest_setup":
						if res == "success" {
							row.GSetupOK += n
						} else {
							row.GSetupBad += n
						}
					}
				}
			}
		}
		gw.mu.Unlock()
		rows = append(rows, row)
	}
	return rows
}

func init() {
	register("c16push", func(c *ctx) error {
		w, err := newNDJSON(filepath.Join(c.out, "c16push.ndjson"))
		if err != nil {
			return err
		}
		defer w.close()
		kinds := []string{"pass", "mixed", "setupfail", "interrupted"}
		seqs := [][]string{{"long"}, {"pass", "setupfail"}, {"mixed", "interrupted", "pass"}, {"setupfail", "mixed", "setupfail"}, {"mixed", "mixed"}}
		for k := 0; k < c.pick(4, 20); k++ {
			var s []string
			for j := 0; j < 2+c.rng.Intn(3); j++ {
				s = append(s, kinds[c.rng.Intn(len(kinds))])
			}
			seqs = append(seqs, s)
		}
		for i, s := range seqs {
			var labels map[string]string
			if i%2 == 1 {
				labels = map[string]string{"team": "b", "b": "team"}
			}
			for _, r := range c16pushSeq(s, labels) {
				w.write(r)
			}
		}
		fmt.Println("c16push rows:", w.n)
		return nil
	})
}
