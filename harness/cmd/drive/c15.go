package main

import (
	"fmt"
	"os"
	"path/filepath"
	"reflect"
	"strings"
	"time"

	"github.com/form3tech-oss/f1/v2/internal/trigger/file"
	"github.com/form3tech-oss/f1/v2/internal/ui"
)

// C15: abstract configs rendered to YAML, parsed by the REAL file.ParseConfigFile at a chosen `now`,
// and the plan observed through the parsed stages' behaviour.
type c15stage struct {
	Dur   int    `json:"dur"` // ms, -1 omitted
	Mode  string `json:"mode"`
	Rate  int    `json:"rate"`
	Dist  int    `json:"dist"`
	Conc  int    `json:"conc"`
	Start int    `json:"start"`
	End   int    `json:"end"`
	Stg   int    `json:"stg"`
	Freq  int    `json:"freq"`
	Ptag  string `json:"ptag"`
}

type c15cfg struct {
	HasStart bool       `json:"has_start"`
	NowOff   int        `json:"now_off"`
	Def      c15stage   `json:"def"`
	LimConc  int        `json:"limconc"`
	Stages   []c15stage `json:"stages"`
	MinDur   int        `json:"min_dur"`
}

type c15view struct {
	Mode string `json:"mode"`
	Dur  int    `json:"dur"`
	A    int    `json:"a"`
	B    int    `json:"b"`
	Ptag string `json:"ptag"`
}

type c15lim struct {
	Conc    int  `json:"conc"`
	MaxIter int  `json:"maxiter"`
	MaxDur  int  `json:"maxdur_ms"`
	MaxF    int  `json:"maxf"`
	MaxFR   int  `json:"maxfr"`
	Ignore  bool `json:"ignore"`
}

type c15row struct {
	Cfg      c15cfg    `json:"cfg"`
	Yaml     string    `json:"yaml"`
	Accepted bool      `json:"accepted"`
	Panicked bool      `json:"panicked"`
	Plan     []c15view `json:"plan"`
	TotalMs  int       `json:"total_ms"`
	Opt      c15lim    `json:"opt"`
	Lim      c15lim    `json:"lim"`
	Msg      string    `json:"msg,omitempty"`
}

func c15render(st c15stage, indent string) string {
	var b strings.Builder
	w := func(k, v string) { b.WriteString(indent + k + ": " + v + "\n") }
	if st.Dur != -1 {
		w("duration", fmt.Sprintf("%dms", st.Dur))
	}
	if st.Mode != "" {
		w("mode", st.Mode)
	}
	if st.Rate != -1 {
		w("rate", fmt.Sprintf("%d/1s", st.Rate))
	}
	if st.Dist != -1 {
		w("distribution", []string{"none", "regular"}[st.Dist])
	}
	if st.Conc != -1 {
		w("concurrency", fmt.Sprint(st.Conc))
	}
	if st.Start != -1 {
		w("start-rate", fmt.Sprintf("%d/1s", st.Start))
	}
	if st.End != -1 {
		w("end-rate", fmt.Sprintf("%d/1s", st.End))
	}
	if st.Stg != -1 {
		w("stages", fmt.Sprintf("0s:%d,10s:%d", st.Stg, st.Stg))
	}
	if st.Freq != -1 {
		w("iteration-frequency", fmt.Sprintf("%dms", st.Freq))
	}
	if st.Ptag != "" {
		b.WriteString(indent + "parameters:\n" + indent + "  VERIF_TAG: " + st.Ptag + "\n")
	}
	return b.String()
}

func c15observe(c *ctx, cfg c15cfg, lim c15lim) (row c15row) {
	row = c15row{Cfg: cfg, Lim: lim, Plan: []c15view{}}
	start := time.Date(2030, 1, 2, 3, 4, 5, 0, time.UTC)
	var b strings.Builder
	b.WriteString("scenario: scn\nlimits:\n")
	// the two failure tolerances are optional: every third config leaves one of them out (it then means 0, which is what
	// `lim` - the expected run options - holds; the other one keeps its value)
	b.WriteString(fmt.Sprintf("  max-duration: %dms\n  concurrency: %d\n  max-iterations: %d\n", lim.MaxDur, lim.Conc, lim.MaxIter))
	if !(lim.MaxF == 0 && lim.MaxIter%3 == 1) {
		b.WriteString(fmt.Sprintf("  max-failures: %d\n", lim.MaxF))
	}
	if !(lim.MaxFR == 0 && lim.MaxIter%3 == 2) {
		b.WriteString(fmt.Sprintf("  max-failures-rate: %d\n", lim.MaxFR))
	}
	b.WriteString(fmt.Sprintf("  ignore-dropped: %v\n", lim.Ignore))
	if cfg.HasStart {
		b.WriteString("schedule:\n  stage-start: " + start.Format(time.RFC3339) + "\n")
	}
	b.WriteString("default:\n  jitter: 0\n  volume: 5000\n  repeat: 10s\n  peak: 5s\n  weights: \"\"\n  standard-deviation: 1s\n")
	b.WriteString(c15render(cfg.Def, "  "))
	b.WriteString("stages:\n")
	for _, st := range cfg.Stages {
		r := c15render(st, "  ")
		if r == "" {
			r = "  jitter: 0\n"
		}
		b.WriteString("-" + r[1:])
	}
	row.Yaml = b.String()
	now := start.Add(time.Duration(cfg.NowOff) * time.Millisecond)
	defer func() {
		if r := recover(); r != nil {
			row.Panicked = true
			row.Msg = fmt.Sprint(r)
		}
	}()
	rs, err := file.ParseConfigFile([]byte(row.Yaml), now)
	if err != nil {
		row.Msg = err.Error()
		return row
	}
	row.Accepted = true
	t0 := time.Unix(1_900_000_000, 0) // a multiple of 10 s: the start of a gaussian repeat window
	for _, st := range rs.Stages {
		v := c15view{Dur: int(st.StageDuration / time.Millisecond), Ptag: st.Params["VERIF_TAG"]}
		switch {
		case st.UsersConcurrency > 0:
			v.Mode, v.A = "users", st.UsersConcurrency
		default:
			first := st.Rate(t0)
			switch {
			case st.IterationDuration == time.Second || st.IterationDuration == 100*time.Millisecond && false:
				v.Mode = "?"
			}
			_ = first
			v = c15classify(st.StageDuration, st.IterationDuration, st.Rate, v, t0)
		}
		row.Plan = append(row.Plan, v)
	}
	// total duration and the limits as parsed (unexported fields are read, not written, through reflection)
	rv := reflect.ValueOf(rs).Elem()
	row.TotalMs = int(time.Duration(rv.FieldByName("stagesTotalDuration").Int()) / time.Millisecond)
	row.Opt = c15lim{Conc: rs.Concurrency, MaxIter: int(rs.MaxIterations), MaxDur: int(rs.MaxDuration / time.Millisecond),
		MaxF: int(rv.FieldByName("maxFailures").Uint()), MaxFR: int(rv.FieldByName("maxFailuresRate").Int()), Ignore: rs.IgnoreDropped}
	// ... and through the trigger builder, which is what the run command uses (it parses at the wall-clock
	// `now`; only done when nothing can be skipped so that both parses see the same plan)
	if !cfg.HasStart {
		p := filepath.Join(c.out, fmt.Sprintf("c15-%d.yaml", time.Now().UnixNano()))
		if err := os.WriteFile(p, []byte(row.Yaml), 0o600); err == nil {
			defer os.Remove(p)
			bd := file.Rate(ui.NewDiscardOutput())
			if err := bd.Flags.Parse([]string{p}); err == nil {
				trig, err := bd.New(bd.Flags)
				if err != nil {
					row.Accepted = false
					row.Msg += " builder: " + err.Error()
					return row
				}
				o := trig.Options
				viaBuilder := c15lim{Conc: o.Concurrency, MaxIter: int(o.MaxIterations), MaxDur: int(o.MaxDuration / time.Millisecond),
					MaxF: int(o.MaxFailures), MaxFR: o.MaxFailuresRate, Ignore: o.IgnoreDropped}
				if viaBuilder != row.Opt || int(trig.Duration/time.Millisecond) != row.TotalMs {
					// report what the run command would use
					row.Opt, row.TotalMs = viaBuilder, int(trig.Duration/time.Millisecond)
				}
			}
		}
	}
	return row
}

// c15classify recognises the mode and the effective values of a rate stage from its behaviour
// (jitter 0): constant: Rate == n always, tick interval 1 s (none) or 100 ms (regular);
// staged "0s:n,10s:n": Rate == n, tick interval = the iteration frequency (never 1 s or 100 ms here);
// ramp a->b over the stage duration: Rate(t0) == a, Rate(t0 + duration) == b.
func c15classify(stageDur, iterDur time.Duration, rate func(time.Time) int, v c15view, t0 time.Time) c15view {
	first := rate(t0)
	last := rate(t0.Add(stageDur))
	switch {
	case first != last && iterDur == time.Second:
		v.Mode, v.A, v.B = "ramp", first, last
	case iterDur == time.Second:
		v.Mode, v.A, v.B = "constant", first, 0
	case iterDur == 100*time.Millisecond:
		// regular distribution of n/1s: n spread over 10 sub-ticks
		sum := first + last
		for k := 2; k < 10; k++ {
			sum += rate(t0.Add(stageDur))
		}
		v.Mode, v.A, v.B = "constant", sum, 1
	default:
		// staged "0s:n,10s:n" is flat at n >= 30; a gaussian (peak 5 s, sigma 1 s, 10 s window) is ~0 at a window start
		if first >= 30 {
			v.Mode, v.A, v.B = "staged", first, int(iterDur/time.Millisecond)
		} else {
			v.Mode, v.A, v.B = "gaussian", 0, int(iterDur/time.Millisecond)
		}
	}
	return v
}

func init() {
	register("c15", func(c *ctx) error {
		w, err := newNDJSON(filepath.Join(c.out, "c15.ndjson"))
		if err != nil {
			return err
		}
		defer w.close()
		absent := c15stage{Dur: -1, Rate: -1, Dist: -1, Conc: -1, Start: -1, End: -1, Stg: -1, Freq: -1}
		modes := []string{"constant", "users", "ramp", "staged", "gaussian"}
		n := c.pick(1500, 15000)
		for k := 0; k < n; k++ {
			// default section: each field present with probability 1/2, values distinct from the stages' values
			def := absent
			pick := func(p int) bool { return c.rng.Intn(p) == 0 }
			if !pick(4) {
				def.Dur = 2000 + 1000*c.rng.Intn(3)
			}
			if !pick(3) {
				def.Mode = modes[c.rng.Intn(5)]
			}
			if pick(2) {
				def.Rate = 70 + c.rng.Intn(5)
			}
			if !pick(4) {
				def.Dist = 0
			}
			if pick(2) {
				def.Conc = 50 + c.rng.Intn(5)
			}
			if pick(2) {
				def.Start = 60 + c.rng.Intn(3)
			}
			if pick(2) {
				def.End = 80 + c.rng.Intn(3)
			}
			if pick(2) {
				def.Stg = 90 + c.rng.Intn(3)
			}
			if pick(2) {
				def.Freq = 300 + 10*c.rng.Intn(5)
			}
			if pick(2) {
				def.Ptag = "D"
			}
			ns := 1 + c.rng.Intn(4)
			cfg := c15cfg{Def: def, LimConc: 4 + c.rng.Intn(4), MinDur: 0}
			cum := []int{}
			total := 0
			for i := 0; i < ns; i++ {
				st := absent
				if !pick(4) {
					st.Dur = 1000 * (1 + c.rng.Intn(9))
					if pick(10) {
						st.Dur = 0
					}
				}
				if !pick(3) {
					st.Mode = modes[c.rng.Intn(5)]
				}
				if pick(2) {
					st.Rate = 1 + c.rng.Intn(9)
				}
				if pick(3) {
					st.Dist = 0
				}
				if pick(2) {
					st.Conc = 1 + c.rng.Intn(9)
				}
				if pick(2) {
					st.Start = 10 + c.rng.Intn(9)
				}
				if pick(2) {
					st.End = 20 + c.rng.Intn(9)
				}
				if pick(2) {
					st.Stg = 30 + c.rng.Intn(9)
				}
				if pick(2) {
					st.Freq = 200 + 10*c.rng.Intn(9)
				}
				if pick(2) {
					st.Ptag = fmt.Sprintf("S%d", i+1)
				}
				cfg.Stages = append(cfg.Stages, st)
				d := st.Dur
				if d == -1 {
					d = def.Dur
				}
				if d > 0 {
					total += d
				}
				cum = append(cum, total)
			}
			// now: no stage-start, or an offset at/around every cumulative boundary
			switch c.rng.Intn(4) {
			case 0:
				cfg.HasStart = false
			default:
				cfg.HasStart = true
				b := cum[c.rng.Intn(len(cum))]
				cfg.NowOff = b + []int{-1, 0, 1, -500, 500, -100000, 100000}[c.rng.Intn(7)]
			}
			lim := c15lim{Conc: cfg.LimConc, MaxIter: c.rng.Intn(1000), MaxDur: 1000 * (1 + c.rng.Intn(100)), MaxF: 1 + c.rng.Intn(9), MaxFR: 1 + c.rng.Intn(99), Ignore: c.rng.Intn(2) == 0}
			switch lim.MaxIter % 3 { // see c15observe: the tolerance left out of the file is expected to be 0
			case 1:
				lim.MaxF = 0
			case 2:
				lim.MaxFR = 0
			}
			w.write(c15observe(c, cfg, lim))
		}
		fmt.Println("c15 observations:", w.n)
		return nil
	})
}

// c15jit: inheritance of the jitter field, observed through the behaviour of the parsed stage.
type c15jitRow struct {
	Mode     string `json:"mode"`
	DefJ     int    `json:"defj"`
	StJ      int    `json:"stj"`
	Eff      int    `json:"eff"`
	Accepted bool   `json:"accepted"`
	Panicked bool   `json:"panicked"`
	Yaml     string `json:"yaml"`
	Msg      string `json:"msg,omitempty"`
}

func c15jitObserve(mode string, defj, stj int) (row c15jitRow) {
	row = c15jitRow{Mode: mode, DefJ: defj, StJ: stj}
	var b strings.Builder
	b.WriteString("scenario: scn\nlimits:\n  max-duration: 1m\n  concurrency: 4\n  max-iterations: 0\n  ignore-dropped: true\n")
	b.WriteString("default:\n  distribution: none\n  duration: 20s\n")
	if defj >= 0 {
		b.WriteString(fmt.Sprintf("  jitter: %d\n", defj))
	}
	b.WriteString("stages:\n- mode: " + mode + "\n")
	switch mode {
	case "constant":
		b.WriteString("  rate: 1000/1s\n")
	case "ramp":
		b.WriteString("  start-rate: 1000/1s\n  end-rate: 3000/1s\n")
	case "staged":
		b.WriteString("  stages: 0s:1000,20s:1000\n  iteration-frequency: 1s\n")
	case "gaussian":
		b.WriteString("  volume: 100000\n  repeat: 20s\n  iteration-frequency: 1s\n  peak: 10s\n  weights: \"\"\n  standard-deviation: 5s\n")
	}
	if stj >= 0 {
		b.WriteString(fmt.Sprintf("  jitter: %d\n", stj))
	}
	row.Yaml = b.String()
	defer func() {
		if r := recover(); r != nil {
			row.Panicked = true
			row.Msg = fmt.Sprint(r)
		}
	}()
	now := time.Date(2030, 1, 2, 3, 4, 0, 0, time.UTC)
	rs, err := file.ParseConfigFile([]byte(row.Yaml), now)
	if err != nil {
		row.Msg = err.Error()
		return row
	}
	row.Accepted = true
	if len(rs.Stages) != 1 || rs.Stages[0].Rate == nil {
		row.Msg = "no rate stage"
		row.Accepted = false
		return row
	}
	// evaluated repeatedly at ONE instant (the middle of the stage / window): without jitter the values agree to
	// within the gaussian carry (1); with 40 % jitter they are hundreds apart
	at := now.Add(10 * time.Second)
	lo, hi := 1<<30, -1
	for k := 0; k < 60; k++ {
		v := rs.Stages[0].Rate(at)
		if v < lo {
			lo = v
		}
		if v > hi {
			hi = v
		}
	}
	if hi-lo > 2 {
		row.Eff = 1
	}
	return row
}

func init() {
	register("c15jit", func(c *ctx) error {
		w, err := newNDJSON(filepath.Join(c.out, "c15jit.ndjson"))
		if err != nil {
			return err
		}
		defer w.close()
		for _, mode := range []string{"constant", "ramp", "staged", "gaussian"} {
			for _, defj := range []int{-1, 0, 40} {
				for _, stj := range []int{-1, 0, 40} {
					w.write(c15jitObserve(mode, defj, stj))
				}
			}
		}
		fmt.Println("c15jit observations:", w.n)
		return nil
	})
}
