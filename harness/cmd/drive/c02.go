package main

import (
	"bytes"
	"context"
	"fmt"
	"path/filepath"
	"runtime"
	"strconv"
	"strings"
	"sync"
	"sync/atomic"
	"time"

	"github.com/prometheus/client_golang/prometheus"

	"github.com/form3tech-oss/f1/v2/internal/log"
	"github.com/form3tech-oss/f1/v2/internal/metrics"
	"github.com/form3tech-oss/f1/v2/internal/progress"
	"github.com/form3tech-oss/f1/v2/internal/verifhook"
	"github.com/form3tech-oss/f1/v2/internal/workers"
	"github.com/form3tech-oss/f1/v2/pkg/f1/scenarios"
	f1testing "github.com/form3tech-oss/f1/v2/pkg/f1/testing"
	"github.com/form3tech-oss/f1/v2/verifharness/sched"
)

// C02: the REAL workers.PoolManager + TriggerPool under the cooperative scheduler. The harness is
// the ticker (it calls pool.Trigger itself), the canceller and the gate of every body; workers and
// the pool's stop goroutine are f1's own goroutines, parked at the verif yield points. Schedules are
// chosen by seeded policies that deliberately starve a goroutine sitting in one of the race windows
// (limit discard/cancel, trigger ctx-check/publish, stop flag/drain, none()/take()) while all others
// run. Each schedule is one F1Run trace (pool_only) with exact event order.
type c02cfg struct {
	Workers int
	MaxIter uint64
	Ticks   []int
	Cancel  bool
	Policy  string // "" uniform | yield point to starve
}

func runC02(c *ctx, cfg c02cfg, seed int64) rTrace {
	tr := rTrace{Cfg: rCfg{Name: "pool-coop/" + cfg.Policy, Mode: "constant", RateMode: true, Conc: cfg.Workers, MaxIter: int64(cfg.MaxIter),
		MaxDurUs: 1_000_000_000, WaitUs: 1_000_000, PoolOnly: true,
		Args: fmt.Sprintf("workers=%d maxiter=%d ticks=%v cancel=%v policy=%s seed=%d", cfg.Workers, cfg.MaxIter, cfg.Ticks, cfg.Cancel, cfg.Policy, seed)}}
	var mu sync.Mutex
	add := func(e rEv) { mu.Lock(); tr.Ev = append(tr.Ev, e); mu.Unlock() }
	s := sched.New()
	s.WatchForeign = true // the pool's stopper goroutine announces itself only after it has been woken
	s.Namer = func(point string, who any, seq int) string {
		switch point {
		case "tp.w.started":
			return "w" + strconv.Itoa(seq)
		case "tp.stopper.woken":
			return "stopper"
		}
		return ""
	}
	s.NonBlocking = func(point string) (sched.State, bool) {
		switch point {
		case "tp.w.park":
			return sched.Parked, true
		case "tp.send.locked", "tp.w.exit", "tp.send.before":
			return sched.Running, true
		}
		return 0, false
	}
	stopSeen := false
	tr.MaxIter = int64(cfg.MaxIter)
	arrive := func(proc, point string, n int64) {
		switch point {
		case "tp.send.before", "tp.send.unlocked":
			return // same program counter as the neighbouring point (see Trace_TriggerPool)
		}
		if strings.HasPrefix(point, "ps.") {
			return // progress-statistics yield points inside the body's bookkeeping: not part of the pool specification
		}
		mu.Lock()
		tr.Arr = append(tr.Arr, []any{proc, point, n})
		mu.Unlock()
	}
	s.OnPoint = func(proc, point string, n int64) {
		arrive(proc, point, n)
		switch point {
		case "tp.stop.flagged":
			stopSeen = true
			add(rEv{K: "stopflag"})
		case "tp.send.locked":
			if proc == "stopper" {
				add(rEv{K: "stopsend"})
			} else {
				add(rEv{K: "tick", A: n})
			}
		case "tp.send.unlocked":
			if n > 0 {
				b := int64(0)
				if proc == "stopper" {
					b = 1
				}
				add(rEv{K: "dropev", A: n, B: b})
			}
		case "tp.limit.discarded":
			add(rEv{K: "limit"})
		}
	}
	_ = stopSeen
	stats := &progress.Stats{}
	m := metrics.NewInstance(prometheus.NewRegistry(), true, nil)
	var handles sync.Map
	var nh atomic.Int64
	body := func(t *f1testing.T) {
		id, _ := strconv.ParseInt(t.Iteration, 10, 64)
		hv, ok := handles.Load(t)
		if !ok {
			hv, _ = handles.LoadOrStore(t, nh.Add(1))
		}
		h := hv.(int64)
		fa := int64(0)
		if t.Failed() {
			fa = 1
		}
		add(rEv{K: "start", A: id, B: h, D: fa})
		t.Cleanup(func() { add(rEv{K: "cleanup", A: id, B: h}) })
		s.Pause("body", id) // the body is in flight until the scheduler releases it
		add(rEv{K: "end", A: id, B: h})
	}
	scn := &scenarios.Scenario{Name: "scn", ScenarioFn: func(t *f1testing.T) f1testing.RunFn { return body }}
	lg := discardLogger()
	as := workers.NewActiveScenario(scn, m, stats, lg, log.NewSlogLogrusLogger(lg))
	as.Setup()
	add(rEv{K: "setup", A: 1})
	pm := workers.New(cfg.MaxIter, as)
	s.Install()
	defer s.Uninstall()
	pool := pm.NewTriggerPool(cfg.Workers)
	ctx, cancel := context.WithCancel(context.Background())
	defer cancel()
	workerCtx := pool.Start(ctx) // returns once every worker announced itself (they are parked at tp.w.started)
	started := make(chan struct{}, 4)
	go func() {
		s.Register("T")
		started <- struct{}{}
		for _, n := range cfg.Ticks {
			s.Pause("T.tick", int64(n))
			pool.Trigger(workerCtx, n)
		}
		s.Pause("T.last", 0)
		s.Exit()
	}()
	<-started
	go func() {
		s.Register("C")
		started <- struct{}{}
		s.Pause("C.cancel", 0)
		add(rEv{K: "cancel", C: 1})
		arrive("C", "C.done", 0) // logged before the call: nothing else runs in between
		cancel()
		s.Exit()
	}()
	<-started
	if err := s.Quiesce(); err != nil {
		tr.Err = err.Error()
		return tr
	}
	rng := newRng(seed)
	var names []string
	lostWakeup := false
	for step := 0; step < 3000; step++ {
		if s.AllDone() {
			break
		}
		en := s.Enabled()
		// the canceller acts only when asked to, or when nothing else can move (so every schedule terminates)
		var cand []string
		for _, n := range en {
			if n == "C" && !(cfg.Cancel && rng.Intn(30) == 0) {
				continue
			}
			cand = append(cand, n)
		}
		if len(cand) == 0 {
			// nothing can move except the canceller: the pool is idle
			parked := 0
			for _, p := range s.Procs() {
				if p.State == sched.Parked {
					parked++
				}
			}
			tdone := true
			if p := s.Proc("T"); p != nil && p.State != sched.Done && p.Point != "T.last" {
				tdone = false
			}
			if tdone && len(en) > 0 {
				add(rEv{K: "idle", A: int64(parked)})
			}
			cand = en
		}
		if len(cand) == 0 {
			// nothing at a yield point: everything is parked/blocked/done. Workers parked with the pool not stopped
			// is the normal idle state once the ticker is finished; cancelling is then the only way forward.
			// One pattern is an observation of the real pool rather than a harness problem: the ticker, the canceller
			// and the pool's stop goroutine have all finished (the stop flag is set and its broadcast was sent), yet
			// workers are still parked in Cond.Wait - a lost wake-up: the pool can never complete. It is re-confirmed
			// after a pause before it is believed.
			lost := true
			nparked := 0
			for _, p := range s.Procs() {
				switch {
				case p.State == sched.Done:
				case strings.HasPrefix(p.Name, "w") && p.State == sched.Parked:
					nparked++
				default:
					lost = false
				}
			}
			if sp := s.Proc("stopper"); sp == nil || sp.State != sched.Done {
				lost = false
			}
			if lost && nparked > 0 {
				time.Sleep(20 * time.Millisecond)
				if err := s.Quiesce(); err == nil && len(s.Enabled()) == 0 {
					add(rEv{K: "noreturn", S: fmt.Sprintf("%d worker(s) still parked in Cond.Wait after the stop goroutine finished: %s", nparked, strings.Join(s.Describe(), " "))})
					lostWakeup = true
					break
				}
			}
			tr.Err = "deadlock: " + strings.Join(s.Describe(), " ")
			break
		}
		// policy: starve goroutines sitting in the chosen window while anything else can run
		pick := ""
		if cfg.Policy != "" {
			var others []string
			for _, n := range cand {
				if p := s.Proc(n); p != nil && p.Point != cfg.Policy {
					others = append(others, n)
				}
			}
			if len(others) > 0 && rng.Intn(10) != 0 {
				pick = others[rng.Intn(len(others))]
			}
		}
		if pick == "" {
			pick = cand[rng.Intn(len(cand))]
		}
		mu.Lock()
		tr.Arr = append(tr.Arr, []any{pick, "REL", 0}) // the scheduler releases this goroutine now
		mu.Unlock()
		if _, err := s.Step(pick); err != nil {
			tr.Err = err.Error()
			break
		}
		names = append(names, pick)
	}
	if tr.Err == "" && !s.AllDone() && !lostWakeup {
		tr.Err = "schedule did not finish: " + strings.Join(s.Describe(), " ")
	}
	for _, p := range s.Procs() {
		if strings.HasPrefix(p.Name, "w") {
			tr.Workers = append(tr.Workers, p.Name)
		}
	}
	if tr.Err == "" && !lostWakeup {
		select {
		case <-pm.WaitForCompletion():
		default:
			// WaitForCompletion spawns its waiter goroutine; give it a moment
			done := pm.WaitForCompletion()
			select {
			case <-done:
			case <-afterMs(500):
				add(rEv{K: "noreturn", S: "WaitForCompletion not signalled although every worker and the stop goroutine finished"})
			}
		}
		tot := stats.Total()
		add(rEv{K: "ret", A: int64(tot.SuccessfulIterationDurations.Count), B: int64(tot.FailedIterationDurations.Count), D: int64(tot.DroppedIterationCount)})
		tr.Arr = append(tr.Arr, []any{"END", "END", int64(tot.SuccessfulIterationDurations.Count + tot.FailedIterationDurations.Count), int64(tot.DroppedIterationCount)})
	}
	tr.Cfg.Args += " sched=" + strings.Join(names, ",")
	return tr
}

func init() {
	register("c02", func(c *ctx) error {
		w, err := newNDJSON(filepath.Join(c.out, "c02.ndjson"))
		if err != nil {
			return err
		}
		defer w.close()
		policies := []string{"", "tp.limit.discarded", "tp.trigger.checked", "tp.stop.flagged", "tp.w.beforeTake", "tp.w.taken", "tp.w.wait", "tp.send.unlocked", "body"}
		n := c.pick(120, 1500)
		for k := 0; k < n; k++ {
			cfg := c02cfg{Workers: 1 + c.rng.Intn(3), Policy: policies[k%len(policies)], Cancel: c.rng.Intn(3) == 0}
			nt := 1 + c.rng.Intn(4)
			for j := 0; j < nt; j++ {
				cfg.Ticks = append(cfg.Ticks, c.rng.Intn(5))
			}
			if c.rng.Intn(2) == 0 || cfg.Policy == "tp.limit.discarded" {
				cfg.MaxIter = uint64(1 + c.rng.Intn(4))
			}
			if cfg.MaxIter == 0 {
				cfg.Cancel = true // without a limit only cancellation ends the pool
			}
			w.write(runC02(c, cfg, c.seed*100003+int64(k)))
		}
		fmt.Println("c02 schedules:", w.n)
		return nil
	})
}

// ---- free-running stress on the real pool (no gating): interleavings INSIDE the atomic
// operations' neighbourhood that yield-point scheduling cannot reach (e.g. a non-atomic set()).

func newStressPool(nworkers int, body func(t *f1testing.T)) (*workers.PoolManager, *workers.TriggerPool, *progress.Stats) {
	stats := &progress.Stats{}
	m := metrics.NewInstance(prometheus.NewRegistry(), false, nil)
	scn := &scenarios.Scenario{Name: "scn", ScenarioFn: func(t *f1testing.T) f1testing.RunFn { return body }}
	lg := discardLogger()
	as := workers.NewActiveScenario(scn, m, stats, lg, log.NewSlogLogrusLogger(lg))
	as.Setup()
	pm := workers.New(0, as)
	return pm, pm.NewTriggerPool(nworkers), stats
}

// stressConservation: a tick storm supersedes pending work while busy workers take jobs.
func stressConservation(c *ctx, nworkers, tick int, dur time.Duration) rTrace {
	tr := rTrace{Cfg: rCfg{Name: "pool-stress-conservation", Mode: "constant", RateMode: true, Conc: nworkers, MaxDurUs: 1_000_000_000,
		WaitUs: 1_000_000, PoolOnly: true, Light: true, Args: fmt.Sprintf("workers=%d tick=%d dur=%s", nworkers, tick, dur)}}
	var started atomic.Int64
	pm, pool, stats := newStressPool(nworkers, func(t *f1testing.T) { started.Add(1) })
	ctx, cancel := context.WithCancel(context.Background())
	workerCtx := pool.Start(ctx)
	var requested int64
	deadline := time.Now().Add(dur)
	for time.Now().Before(deadline) {
		for k := 0; k < 64; k++ {
			pool.Trigger(workerCtx, tick)
			requested += int64(tick)
		}
	}
	time.Sleep(2 * time.Millisecond) // triggering has stopped; no tick overlaps the stop path
	cancel()
	select {
	case <-pm.WaitForCompletion():
	case <-time.After(5 * time.Second):
		tr.Ev = append(tr.Ev, rEv{K: "noreturn", S: "pool did not complete 5 s after cancel"})
	}
	tot := stats.Total()
	n := started.Load()
	tr.Ev = append(tr.Ev, rEv{K: "setup", A: 1}, rEv{K: "tick", A: requested})
	if n > 0 {
		tr.Ev = append(tr.Ev, rEv{K: "idrange", A: 1, B: n})
	}
	if tot.DroppedIterationCount > 0 {
		tr.Ev = append(tr.Ev, rEv{K: "dropev", A: int64(tot.DroppedIterationCount)})
	}
	tr.Ev = append(tr.Ev, rEv{K: "ret", A: int64(tot.SuccessfulIterationDurations.Count), B: int64(tot.FailedIterationDurations.Count), D: int64(tot.DroppedIterationCount)})
	return tr
}

// stressUsable: every tick requests one job per worker and the bodies only finish once ALL workers
// are executing at the same time; a stranded (lost wake-up) worker makes a round time out.
// stressPoolState reads the goroutine dump: worker goroutines of the trigger pool parked in waitForNewJobs, worker
// goroutines alive at all, and stress bodies executing (inside the scenario function)
func stressPoolState() (parked, alive, bodies int) {
	buf := make([]byte, 4<<20)
	n := runtime.Stack(buf, true)
	for _, g := range bytes.Split(buf[:n], []byte("\n\n")) {
		if bytes.Contains(g, []byte("workers.(*TriggerPool).run")) {
			alive++
			if bytes.Contains(g, []byte("workers.(*TriggerPool).waitForNewJobs")) && bytes.Contains(g, []byte("sync.(*Cond).Wait")) {
				parked++
			}
			if bytes.Contains(g, []byte("main.stressUsable.func")) {
				bodies++
			}
		}
	}
	return parked, alive, bodies
}

func stressUsable(c *ctx, nworkers int, dur time.Duration) rTrace {
	tr := rTrace{Cfg: rCfg{Name: "pool-stress-usable", Mode: "constant", RateMode: true, Conc: nworkers, MaxDurUs: 1_000_000_000,
		WaitUs: 1_000_000, PoolOnly: true, Light: true, Rendezvous: true, Args: fmt.Sprintf("workers=%d dur=%s", nworkers, dur)}}
	var arrived atomic.Int64
	var mu sync.Mutex
	gate := make(chan struct{})
	var started atomic.Int64
	var burst atomic.Bool
	pm, pool, stats := newStressPool(nworkers, func(t *f1testing.T) {
		started.Add(1)
		if burst.Load() {
			return // a request of the warm-up burst: finishes at once
		}
		mu.Lock()
		g := gate
		mu.Unlock()
		if arrived.Add(1) == int64(nworkers) {
			close(g)
		}
		select {
		case <-g:
		case <-time.After(3 * time.Second):
		}
	})
	ctx, cancel := context.WithCancel(context.Background())
	workerCtx := pool.Start(ctx)
	rounds, ok := 0, true
	var requested int64
	deadline := time.Now().Add(dur)
	for ok && time.Now().Before(deadline) {
		mu.Lock()
		gate = make(chan struct{})
		g := gate
		arrived.Store(0)
		mu.Unlock()
		// a burst of single requests on the idle pool first: all but one of the woken workers lose the race for the
		// job and are somewhere in their take / park path when the full tick arrives
		burst.Store(true)
		for b := c.rng.Intn(4); b > 0; b-- {
			pool.Trigger(workerCtx, 1)
			requested++
		}
		burst.Store(false)
		pool.Trigger(workerCtx, nworkers)
		requested += int64(nworkers)
		select {
		case <-g:
			rounds++
		case <-time.After(2 * time.Second):
			// A round that does not complete is a verdict only if the pool's own state says why: workers parked in
			// waitForNewJobs (or gone) while fewer than `concurrency` bodies are executing, twice 300 ms apart. Otherwise
			// (every body is in fact waiting at the gate, or goroutines are still on their way) the machine was too slow
			// for this round and the trace says so - an unreproducible stall is not an observation of f1
			p1, a1, b1 := stressPoolState()
			time.Sleep(300 * time.Millisecond)
			p2, a2, b2 := stressPoolState()
			stuck := b1 < nworkers && b2 < nworkers && b1 == b2 && ((p1 > 0 && p2 > 0) || (a1 < nworkers && a2 < nworkers))
			if stuck {
				ok = false
				tr.Cfg.Args += fmt.Sprintf(" stuck: %d/%d workers parked in waitForNewJobs, %d/%d worker goroutines alive, %d/%d bodies executing", p2, nworkers, a2, nworkers, b2, nworkers)
			} else {
				tr.Cfg.Args += fmt.Sprintf(" (round %d inconclusive: parked=%d,%d alive=%d,%d bodies=%d,%d)", rounds+1, p1, p2, a1, a2, b1, b2)
				deadline = time.Now() // end the trace here
				mu.Lock()
				select {
				case <-gate:
				default:
					close(gate) // let the bodies of the abandoned round go
				}
				mu.Unlock()
			}
		}
		for k := c.rng.Intn(200); k > 0; k-- { // 0-few microseconds before the next tick
			_ = k
		}
	}
	cancel()
	select {
	case <-pm.WaitForCompletion():
	case <-time.After(5 * time.Second):
	}
	tot := stats.Total()
	tr.Ev = append(tr.Ev, rEv{K: "setup", A: 1}, rEv{K: "tick", A: requested})
	if n := started.Load(); n > 0 {
		tr.Ev = append(tr.Ev, rEv{K: "idrange", A: 1, B: n})
	}
	if tot.DroppedIterationCount > 0 {
		tr.Ev = append(tr.Ev, rEv{K: "dropev", A: int64(tot.DroppedIterationCount)})
	}
	rv := int64(0)
	if ok {
		rv = 1
	}
	tr.Ev = append(tr.Ev, rEv{K: "rv", A: rv, B: int64(rounds)},
		rEv{K: "ret", A: int64(tot.SuccessfulIterationDurations.Count), B: int64(tot.FailedIterationDurations.Count), D: int64(tot.DroppedIterationCount)})
	tr.Cfg.Args += fmt.Sprintf(" rounds=%d", rounds)
	return tr
}

func init() {
	register("c02stress", func(c *ctx) error {
		w, err := newNDJSON(filepath.Join(c.out, "c02stress.ndjson"))
		if err != nil {
			return err
		}
		defer w.close()
		verifhook.Install(nil)
		d := time.Duration(c.pick(400, 4000)) * time.Millisecond
		for _, wk := range []int{2, 8} {
			w.write(stressConservation(c, wk, 32, d))
			w.write(stressUsable(c, wk, d*time.Duration(wk)/4))
		}
		w.write(stressConservation(c, 16, 3, d))
		// many idle workers losing the race for single requests right before a full tick
		w.write(stressUsable(c, 48, 4*d))
		fmt.Println("c02 stress traces:", w.n)
		return nil
	})
}
