package main

import (
	"context"
	"fmt"
	"path/filepath"
	"strconv"
	"strings"
	"sync"
	"sync/atomic"

	"github.com/prometheus/client_golang/prometheus"

	"github.com/form3tech-oss/f1/v2/internal/log"
	"github.com/form3tech-oss/f1/v2/internal/metrics"
	"github.com/form3tech-oss/f1/v2/internal/progress"
	"github.com/form3tech-oss/f1/v2/internal/workers"
	"github.com/form3tech-oss/f1/v2/pkg/f1/scenarios"
	f1testing "github.com/form3tech-oss/f1/v2/pkg/f1/testing"
	"github.com/form3tech-oss/f1/v2/verifharness/sched"
)

// C02: the REAL workers.PoolManager + TriggerPool under the cooperative scheduler. The harness is
// the ticker (it calls pool.Trigger itself), the canceller and the gate of every body; workers and
// the pool's stop goroutine are f1's own goroutines, parked at the verif yield points. Schedules are
// chosen by seeded policies that deliberately starve a goroutine sitting in one of the race windows
// (limit discard/cancel, trigger ctx-check/publish, stop flag/drain, none()/take()) while all others
// run. Each schedule is one F1Run trace (pool_only) with exact event order.
type c02cfg struct {
	Workers int
	MaxIter uint64
	Ticks   []int
	Cancel  bool
	Policy  string // "" uniform | yield point to starve
}

func runC02(c *ctx, cfg c02cfg, seed int64) rTrace {
	tr := rTrace{Cfg: rCfg{Name: "pool-coop/" + cfg.Policy, Mode: "constant", RateMode: true, Conc: cfg.Workers, MaxIter: int64(cfg.MaxIter),
		MaxDurUs: 1_000_000_000, WaitUs: 1_000_000, PoolOnly: true,
		Args: fmt.Sprintf("workers=%d maxiter=%d ticks=%v cancel=%v policy=%s seed=%d", cfg.Workers, cfg.MaxIter, cfg.Ticks, cfg.Cancel, cfg.Policy, seed)}}
	var mu sync.Mutex
	add := func(e rEv) { mu.Lock(); tr.Ev = append(tr.Ev, e); mu.Unlock() }
	s := sched.New()
	s.Namer = func(point string, who any, seq int) string {
		switch point {
		case "tp.w.started":
			return "w" + strconv.Itoa(seq)
		case "tp.stopper.woken":
			return "stopper"
		}
		return ""
	}
	s.NonBlocking = func(point string) (sched.State, bool) {
		switch point {
		case "tp.w.park":
			return sched.Parked, true
		case "tp.send.locked", "tp.w.exit", "tp.send.before":
			return sched.Running, true
		}
		return 0, false
	}
	stopSeen := false
	s.OnPoint = func(proc, point string, n int64) {
		switch point {
		case "tp.stop.flagged":
			stopSeen = true
			add(rEv{K: "stopflag"})
		case "tp.send.locked":
			if proc == "stopper" {
				add(rEv{K: "stopsend"})
			} else {
				add(rEv{K: "tick", A: n})
			}
		case "tp.send.unlocked":
			if n > 0 {
				b := int64(0)
				if proc == "stopper" {
					b = 1
				}
				add(rEv{K: "dropev", A: n, B: b})
			}
		case "tp.limit.discarded":
			add(rEv{K: "limit"})
		}
	}
	_ = stopSeen
	stats := &progress.Stats{}
	m := metrics.NewInstance(prometheus.NewRegistry(), true, nil)
	var handles sync.Map
	var nh atomic.Int64
	body := func(t *f1testing.T) {
		id, _ := strconv.ParseInt(t.Iteration, 10, 64)
		hv, ok := handles.Load(t)
		if !ok {
			hv, _ = handles.LoadOrStore(t, nh.Add(1))
		}
		h := hv.(int64)
		fa := int64(0)
		if t.Failed() {
			fa = 1
		}
		add(rEv{K: "start", A: id, B: h, D: fa})
		t.Cleanup(func() { add(rEv{K: "cleanup", A: id, B: h}) })
		s.Pause("body", id) // the body is in flight until the scheduler releases it
		add(rEv{K: "end", A: id, B: h})
	}
	scn := &scenarios.Scenario{Name: "scn", ScenarioFn: func(t *f1testing.T) f1testing.RunFn { return body }}
	lg := discardLogger()
	as := workers.NewActiveScenario(scn, m, stats, lg, log.NewSlogLogrusLogger(lg))
	as.Setup()
	add(rEv{K: "setup", A: 1})
	pm := workers.New(cfg.MaxIter, as)
	s.Install()
	defer s.Uninstall()
	pool := pm.NewTriggerPool(cfg.Workers)
	ctx, cancel := context.WithCancel(context.Background())
	defer cancel()
	workerCtx := pool.Start(ctx) // returns once every worker announced itself (they are parked at tp.w.started)
	started := make(chan struct{}, 4)
	go func() {
		s.Register("T")
		started <- struct{}{}
		for _, n := range cfg.Ticks {
			s.Pause("T.tick", int64(n))
			pool.Trigger(workerCtx, n)
		}
		s.Pause("T.last", 0)
		s.Exit()
	}()
	<-started
	go func() {
		s.Register("C")
		started <- struct{}{}
		s.Pause("C.cancel", 0)
		add(rEv{K: "cancel", C: 1})
		cancel()
		s.Exit()
	}()
	<-started
	if err := s.Quiesce(); err != nil {
		tr.Err = err.Error()
		return tr
	}
	rng := newRng(seed)
	var names []string
	for step := 0; step < 3000; step++ {
		if s.AllDone() {
			break
		}
		en := s.Enabled()
		// the canceller acts only when asked to, or when nothing else can move (so every schedule terminates)
		var cand []string
		for _, n := range en {
			if n == "C" && !(cfg.Cancel && rng.Intn(30) == 0) {
				continue
			}
			cand = append(cand, n)
		}
		if len(cand) == 0 {
			cand = en
		}
		if len(cand) == 0 {
			// nothing at a yield point: everything is parked/blocked/done. Workers parked with the pool not stopped
			// is the normal idle state once the ticker is finished; cancelling is then the only way forward.
			tr.Err = "deadlock: " + strings.Join(s.Describe(), " ")
			break
		}
		// policy: starve goroutines sitting in the chosen window while anything else can run
		pick := ""
		if cfg.Policy != "" {
			var others []string
			for _, n := range cand {
				if p := s.Proc(n); p != nil && p.Point != cfg.Policy {
					others = append(others, n)
				}
			}
			if len(others) > 0 && rng.Intn(10) != 0 {
				pick = others[rng.Intn(len(others))]
			}
		}
		if pick == "" {
			pick = cand[rng.Intn(len(cand))]
		}
		if _, err := s.Step(pick); err != nil {
			tr.Err = err.Error()
			break
		}
		names = append(names, pick)
	}
	if tr.Err == "" && !s.AllDone() {
		tr.Err = "schedule did not finish: " + strings.Join(s.Describe(), " ")
	}
	if tr.Err == "" {
		select {
		case <-pm.WaitForCompletion():
		default:
			// WaitForCompletion spawns its waiter goroutine; give it a moment
			done := pm.WaitForCompletion()
			select {
			case <-done:
			case <-afterMs(500):
				add(rEv{K: "noreturn", S: "WaitForCompletion not signalled although every worker and the stop goroutine finished"})
			}
		}
		tot := stats.Total()
		add(rEv{K: "ret", A: int64(tot.SuccessfulIterationDurations.Count), B: int64(tot.FailedIterationDurations.Count), D: int64(tot.DroppedIterationCount)})
	}
	tr.Cfg.Args += " sched=" + strings.Join(names, ",")
	return tr
}

func init() {
	register("c02", func(c *ctx) error {
		w, err := newNDJSON(filepath.Join(c.out, "c02.ndjson"))
		if err != nil {
			return err
		}
		defer w.close()
		policies := []string{"", "tp.limit.discarded", "tp.trigger.checked", "tp.stop.flagged", "tp.w.beforeTake", "tp.w.taken", "tp.w.wait", "tp.send.unlocked", "body"}
		n := c.pick(120, 1500)
		for k := 0; k < n; k++ {
			cfg := c02cfg{Workers: 1 + c.rng.Intn(3), Policy: policies[k%len(policies)], Cancel: c.rng.Intn(3) == 0}
			nt := 1 + c.rng.Intn(4)
			for j := 0; j < nt; j++ {
				cfg.Ticks = append(cfg.Ticks, c.rng.Intn(5))
			}
			if c.rng.Intn(2) == 0 || cfg.Policy == "tp.limit.discarded" {
				cfg.MaxIter = uint64(1 + c.rng.Intn(4))
			}
			if cfg.MaxIter == 0 {
				cfg.Cancel = true // without a limit only cancellation ends the pool
			}
			w.write(runC02(c, cfg, c.seed*100003+int64(k)))
		}
		fmt.Println("c02 schedules:", w.n)
		return nil
	})
}
