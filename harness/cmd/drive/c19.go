package main

import (
	"bytes"
	"encoding/json"
	"errors"
	"fmt"
	"log/slog"
	"math"
	"path/filepath"
	"regexp"
	"strconv"
	"strings"
	"time"

	"github.com/form3tech-oss/f1/v2/internal/metrics"
	"github.com/form3tech-oss/f1/v2/internal/options"
	"github.com/form3tech-oss/f1/v2/internal/progress"
	"github.com/form3tech-oss/f1/v2/internal/run"
	"github.com/form3tech-oss/f1/v2/internal/run/views"
)

// C19: summaries and progress lines rendered by the REAL views (text template and structured log),
// from a real run.Result and from directly constructed view data; the numbers are extracted and TLC
// checks them against the result they were rendered from.
type c19row struct {
	Kind     string `json:"kind"` // summary | progress
	Form     string `json:"form"` // text | log
	Via      string `json:"via"`  // result | data
	S        int64  `json:"s"`
	F        int64  `json:"f"`
	D        int64  `json:"d"`
	Failed   bool   `json:"failed"`
	Banner   string `json:"banner"`
	PStarted int64  `json:"p_started"`
	PS       int64  `json:"p_s"`
	PF       int64  `json:"p_f"`
	PD       int64  `json:"p_d"`
	PctS     int64  `json:"pct_s"`
	PctF     int64  `json:"pct_f"`
	PctD     int64  `json:"pct_d"`
	Panicked bool   `json:"panicked"`
	Out      string `json:"out"`
}

var (
	reStarted = regexp.MustCompile(`(?m)^(\d+) iterations started in `)
	reSucc    = regexp.MustCompile(`Successful Iterations: (\d+) \(([^%]*)%`)
	reFail    = regexp.MustCompile(`Failed Iterations: (\d+) \(([^%]*)%`)
	reDrop    = regexp.MustCompile(`Dropped Iterations: (\d+) \(([^%]*)%`)
	reProg    = regexp.MustCompile(`✔\s+(\d+)\s+(?:⦸\s+(\d+)\s+)?✘\s+(\d+)`)
)

func pct100(s string) int64 {
	v, err := strconv.ParseFloat(strings.TrimSpace(s), 64)
	if err != nil || math.IsNaN(v) || math.IsInf(v, 0) || v < 0 {
		return -2
	}
	return int64(math.Round(v * 100))
}

func num(m []string, i int) int64 {
	if m == nil || m[i] == "" {
		return -1
	}
	v, err := strconv.ParseInt(m[i], 10, 64)
	if err != nil {
		return -2
	}
	return v
}

func c19parseSummaryText(row *c19row, out string) {
	row.Out = out
	if len(row.Out) > 300 {
		row.Out = row.Out[:300]
	}
	switch {
	case strings.Contains(out, "Load Test Failed"):
		row.Banner = "failed"
	case strings.Contains(out, "Load Test Passed"):
		row.Banner = "passed"
	}
	row.PStarted = num(reStarted.FindStringSubmatch(out), 1)
	row.PctS, row.PctF, row.PctD = -1, -1, -1
	if m := reSucc.FindStringSubmatch(out); m != nil {
		row.PS, row.PctS = num(m, 1), pct100(m[2])
	} else {
		row.PS = -1
	}
	if m := reFail.FindStringSubmatch(out); m != nil {
		row.PF, row.PctF = num(m, 1), pct100(m[2])
	} else {
		row.PF = -1
	}
	if m := reDrop.FindStringSubmatch(out); m != nil {
		row.PD, row.PctD = num(m, 1), pct100(m[2])
	} else {
		row.PD = -1
	}
}

func c19parseLog(row *c19row, buf *bytes.Buffer) {
	row.PStarted, row.PS, row.PF, row.PD = -1, -1, -1, -1
	row.PctS, row.PctF, row.PctD = -1, -1, -1
	var rec map[string]any
	line := strings.TrimSpace(buf.String())
	row.Out = line
	if len(row.Out) > 300 {
		row.Out = row.Out[:300]
	}
	if err := json.Unmarshal([]byte(line), &rec); err != nil {
		return
	}
	switch rec["msg"] {
	case "Load Test Failed":
		row.Banner = "failed"
	case "Load Test Passed":
		row.Banner = "passed"
	}
	if st, ok := rec["iteration_stats"].(map[string]any); ok {
		get := func(k string) int64 {
			if v, ok := st[k].(float64); ok {
				return int64(v)
			}
			return -1
		}
		row.PStarted, row.PS, row.PF, row.PD = get("started"), get("successful"), get("failed"), get("dropped")
	}
}

func c19viaResult(c *ctx, s, f, d, stragglers int, nerr int, opts options.RunOptions, started bool) []c19row {
	stats := &progress.Stats{}
	rec := func(n int, o metrics.ResultType) {
		for i := 0; i < n; i++ {
			stats.Record(o, int64(1000+c.rng.Intn(100000)))
		}
	}
	rec(s, metrics.SuccessResult)
	rec(f, metrics.FailedResult)
	rec(d, metrics.DroppedResult)
	res := run.NewResult(opts, views.New(), stats)
	if started {
		res.RecordStarted()
	}
	for i := 0; i < nerr; i++ {
		// (a failed setup followed by a failed teardown leaves TWO errors in the result; a third for good measure)
		res.AddError(errors.New([]string{"setup failed", "teardown failed\nsecond line {{.X}}", "%d %s {{"}[i%3]))
	}
	var rows []c19row
	// progress lines, both forms, from the snapshot the Result stores
	res.SnapshotProgress(time.Second)
	for _, form := range []string{"text", "log"} {
		sn := res.Snapshot()
		row := c19row{Kind: "progress", Form: form, Via: "result", S: int64(sn.SuccessfulIterationDurations.Count),
			F: int64(sn.FailedIterationDurations.Count), D: int64(sn.DroppedIterationCount)}
		func() {
			defer func() {
				if r := recover(); r != nil {
					row.Panicked = true
					row.Out = fmt.Sprint(r)
				}
			}()
			if form == "text" {
				out := res.Progress().Render()
				row.Out = out
				m := reProg.FindStringSubmatch(out)
				row.PS, row.PD, row.PF = num(m, 1), num(m, 2), num(m, 3)
			} else {
				var buf bytes.Buffer
				res.Progress().Log(slog.New(slog.NewJSONHandler(&buf, nil)))
				c19parseLog(&row, &buf)
			}
		}()
		rows = append(rows, row)
	}
	res.GetTotals()
	// iterations that finish after the final totals were taken are not part of the result
	rec(stragglers, metrics.SuccessResult)
	rec(stragglers/2, metrics.FailedResult)
	for _, form := range []string{"text", "log"} {
		sn := res.Snapshot()
		row := c19row{Kind: "summary", Form: form, Via: "result", S: int64(sn.SuccessfulIterationDurations.Count),
			F: int64(sn.FailedIterationDurations.Count), D: int64(sn.DroppedIterationCount)}
		func() {
			defer func() {
				if r := recover(); r != nil {
					row.Panicked = true
					row.Out = fmt.Sprint(r)
				}
			}()
			row.Failed = res.Failed()
			if form == "text" {
				c19parseSummaryText(&row, res.Summary().Render())
			} else {
				var buf bytes.Buffer
				res.Summary().Log(slog.New(slog.NewJSONHandler(&buf, nil)))
				c19parseLog(&row, &buf)
			}
		}()
		rows = append(rows, row)
	}
	return rows
}

func c19viaData(c *ctx, s, f, d uint64, dur time.Duration, failed bool, err error, path string) []c19row {
	var rows []c19row
	v := views.New()
	mk := func(n uint64) progress.IterationDurationsSnapshot {
		return progress.IterationDurationsSnapshot{Count: n, Average: dur / 3, Min: 0, Max: dur}
	}
	data := views.ResultData{Error: err, LogFilePath: path, SuccessfulIterationDurations: mk(s), FailedIterationDurations: mk(f),
		IterationsStarted: s + f, Duration: dur, SuccessfulIterationCount: s, Iterations: s + f + d, FailedIterationCount: f,
		DroppedIterationCount: d, Failed: failed}
	for _, form := range []string{"text", "log"} {
		row := c19row{Kind: "summary", Form: form, Via: "data", S: int64(s), F: int64(f), D: int64(d), Failed: failed}
		func() {
			defer func() {
				if r := recover(); r != nil {
					row.Panicked = true
					row.Out = fmt.Sprint(r)
				}
			}()
			if form == "text" {
				c19parseSummaryText(&row, v.Result(data).Render())
			} else {
				var buf bytes.Buffer
				v.Result(data).Log(slog.New(slog.NewJSONHandler(&buf, nil)))
				c19parseLog(&row, &buf)
			}
		}()
		rows = append(rows, row)
	}
	pd := views.ProgressData{SuccessfulIterationDurationsForPeriod: mk(s / 2), Duration: dur, SuccessfulIterationCount: s,
		DroppedIterationCount: d, FailedIterationCount: f, Period: dur / 7}
	for _, form := range []string{"text", "log"} {
		row := c19row{Kind: "progress", Form: form, Via: "data", S: int64(s), F: int64(f), D: int64(d)}
		func() {
			defer func() {
				if r := recover(); r != nil {
					row.Panicked = true
					row.Out = fmt.Sprint(r)
				}
			}()
			if form == "text" {
				out := v.Progress(pd).Render()
				row.Out = out
				m := reProg.FindStringSubmatch(out)
				row.PS, row.PD, row.PF = num(m, 1), num(m, 2), num(m, 3)
			} else {
				var buf bytes.Buffer
				v.Progress(pd).Log(slog.New(slog.NewJSONHandler(&buf, nil)))
				c19parseLog(&row, &buf)
			}
		}()
		rows = append(rows, row)
	}
	return rows
}

func init() {
	register("c19", func(c *ctx) error {
		w, err := newNDJSON(filepath.Join(c.out, "c19.ndjson"))
		if err != nil {
			return err
		}
		defer w.close()
		// every small triple through a real Result (incl. zero iterations), with/without drops, errors, stragglers
		m := c.pick(4, 6)
		for s := 0; s <= m; s++ {
			for f := 0; f <= m; f++ {
				for d := 0; d <= m; d++ {
					opts := options.RunOptions{Scenario: "s", MaxDuration: time.Second, Concurrency: 1,
						IgnoreDropped: (s+f+d)%2 == 0, MaxFailures: uint64((s * f) % 3), MaxFailuresRate: []int{0, 0, 5, 50}[(s+d)%4]}
					for _, r := range c19viaResult(c, s, f, d, (s+f)%3, []int{0, 0, 0, 1, 1, 2, 3}[(s+2*f+d)%7], opts, (s+f+d)%3 != 0) {
						w.write(r)
					}
				}
			}
		}
		n := c.pick(150, 1500)
		for k := 0; k < n; k++ {
			tot := 1 + c.rng.Intn(3000)
			s := c.rng.Intn(tot + 1)
			f := c.rng.Intn(tot - s + 1)
			d := tot - s - f
			if c.rng.Intn(3) == 0 {
				d = 0
			}
			opts := options.RunOptions{Scenario: "s", MaxDuration: time.Second, Concurrency: 1, IgnoreDropped: c.rng.Intn(2) == 0,
				MaxFailures: uint64(c.rng.Intn(3) * c.rng.Intn(50)), MaxFailuresRate: []int{0, 0, 1, 10, 50}[c.rng.Intn(5)]}
			for _, r := range c19viaResult(c, s, f, d, c.rng.Intn(4)*c.rng.Intn(30), []int{0, 0, 0, 1, 2, 3}[c.rng.Intn(6)], opts, c.rng.Intn(4) != 0) {
				w.write(r)
			}
		}
		// view data directly: extreme durations, counts, errors, paths
		durs := []time.Duration{0, 1, 999, time.Millisecond, 499 * time.Millisecond, time.Second, 90 * time.Minute, 400 * 24 * time.Hour, -time.Second}
		errs := []error{nil, errors.New("x"), errors.New("multi\nline {{.Failed}} %d"), errors.New("")}
		paths := []string{"", "/tmp/x.log", "{{.Error}}", "a b\tc\n", strings.Repeat("p", 300)}
		for k := 0; k < c.pick(200, 2000); k++ {
			var s, f, d uint64
			switch c.rng.Intn(5) {
			case 0:
				s, f, d = 0, 0, 0
			case 1:
				s, f, d = uint64(c.rng.Intn(5)), uint64(c.rng.Intn(5)), uint64(c.rng.Intn(5))
			case 2:
				s, f, d = uint64(c.rng.Intn(100000)), uint64(c.rng.Intn(1000)), uint64(c.rng.Intn(1000))
			case 3:
				s, f, d = 0, 0, uint64(1+c.rng.Intn(100)) // only dropped
			default:
				s, f, d = uint64(1_000_000_000+c.rng.Intn(1000)), uint64(c.rng.Intn(1_000_000_000)), uint64(c.rng.Intn(5))
			}
			for _, r := range c19viaData(c, s, f, d, durs[c.rng.Intn(len(durs))], c.rng.Intn(2) == 0, errs[c.rng.Intn(len(errs))], paths[c.rng.Intn(len(paths))]) {
				w.write(r)
			}
		}
		fmt.Println("c19 observations:", w.n)
		return nil
	})
}
