package main

import (
	"errors"
	"fmt"
	"os"
	"path/filepath"
	"sync/atomic"
	"syscall"
	"time"

	"github.com/form3tech-oss/f1/v2/internal/metrics"
	"github.com/form3tech-oss/f1/v2/internal/options"
	"github.com/form3tech-oss/f1/v2/internal/progress"
	"github.com/form3tech-oss/f1/v2/internal/run"
	"github.com/form3tech-oss/f1/v2/internal/run/views"
	"github.com/form3tech-oss/f1/v2/pkg/f1"
	f1testing "github.com/form3tech-oss/f1/v2/pkg/f1/testing"
)

// C08 observations: the verdict of the REAL run.Result for a given (s, f, d, errors, options),
// and the error returned by the REAL CLI command for runs engineered to end with exact counts.
type c08row struct {
	Kind     string `json:"kind"`
	S        int    `json:"s"`
	F        int    `json:"f"`
	D        int    `json:"d"`
	Nerr     int    `json:"nerr"`
	Ign      bool   `json:"ign"`
	MaxF     int    `json:"maxF"`
	MaxFR    int    `json:"maxFR"`
	Failed   bool   `json:"failed"`
	Panicked bool   `json:"panicked"`
	PanicMsg string `json:"panic_msg,omitempty"`
	Mode     string `json:"mode,omitempty"`
}

func c08lib(s, f, d, nerr int, ign bool, maxF, maxFR int) (row c08row) {
	row = c08row{Kind: "lib", S: s, F: f, D: d, Nerr: nerr, Ign: ign, MaxF: maxF, MaxFR: maxFR}
	defer func() {
		if r := recover(); r != nil {
			row.Panicked = true
			row.PanicMsg = fmt.Sprint(r)
		}
	}()
	stats := &progress.Stats{}
	for i := 0; i < s; i++ {
		stats.Record(metrics.SuccessResult, 1000)
	}
	for i := 0; i < f; i++ {
		stats.Record(metrics.FailedResult, 1000)
	}
	for i := 0; i < d; i++ {
		stats.Record(metrics.DroppedResult, 0)
	}
	res := run.NewResult(options.RunOptions{
		Scenario: "s", MaxDuration: time.Second, Concurrency: 1,
		MaxFailures: uint64(maxF), MaxFailuresRate: maxFR, IgnoreDropped: ign,
	}, views.New(), stats)
	msgs := []string{"setup failed", "teardown failed"}
	for i := 0; i < nerr; i++ {
		res.AddError(errors.New(msgs[i%2]))
	}
	res.GetTotals()
	row.Failed = res.Failed()
	return row
}

// c08cli runs the real CLI (F1.ExecuteWithArgs) on a scenario that fails exactly f of n
// iterations, optionally failing setup/teardown; counts are exact because --max-iterations n ends
// the run, concurrency 1 with an ample rate interval makes drops impossible.
// failWith makes the handle fail in one of the ways a scenario can fail.
func failWith(t *f1testing.T, mode string) {
	switch mode {
	case "fail":
		t.Fail()
	case "failnow":
		t.FailNow()
	case "error":
		t.Error(errors.New("boom"))
	case "fatal":
		t.Fatalf("boom %d", 1)
	case "require":
		t.Require().Equal(1, 2)
	case "panic-error":
		panic(errors.New("boom"))
	case "panic-string":
		panic("boom")
	case "panic-int":
		panic(42)
	case "panic-runtime":
		var m map[string]int
		m["x"] = 1
	}
}

var failModes = []string{"fail", "failnow", "error", "fatal", "require", "panic-error", "panic-string", "panic-int", "panic-runtime"}

func c08cli(n, f int, setupMode, teardownMode string, maxF, maxFR int, primed bool) (row c08row) {
	setupFail, teardownFail := setupMode != "", teardownMode != ""
	nerr := 0
	if setupFail {
		nerr++
	}
	if teardownFail && !setupFail {
		nerr++
	}
	s := n - f
	if setupFail {
		s, f = 0, 0
	}
	row = c08row{Kind: "cli", S: s, F: f, D: 0, Nerr: nerr, Ign: false, MaxF: maxF, MaxFR: maxFR, Mode: setupMode + "/" + teardownMode}
	defer func() {
		if r := recover(); r != nil {
			row.Panicked = true
			row.PanicMsg = fmt.Sprint(r)
		}
	}()
	ff := f
	scen := func(t *f1testing.T) f1testing.RunFn {
		if teardownFail {
			t.Cleanup(func() { failWith(t, teardownMode) })
		}
		if setupFail {
			failWith(t, setupMode)
		}
		return func(t *f1testing.T) {
			var id int
			fmt.Sscan(t.Iteration, &id)
			if id <= ff {
				t.Fail()
			}
		}
	}
	args := []string{"run", "constant", "-r", fmt.Sprintf("%d/50ms", max(n, 1)), "--distribution", "none",
		"--max-duration", "20s", "--concurrency", "64", "-v"}
	if n > 0 {
		args = append(args, "--max-iterations", fmt.Sprint(n))
	} else {
		// zero iterations: rate 0 and a short duration
		args = []string{"run", "constant", "-r", "0/50ms", "--distribution", "none", "--max-duration", "120ms", "--concurrency", "2", "-v"}
	}
	if maxF > 0 {
		args = append(args, "--max-failures", fmt.Sprint(maxF))
	}
	if maxFR > 0 {
		args = append(args, "--max-failures-rate", fmt.Sprint(maxFR))
	}
	args = append(args, "scn")
	inst := f1.New().WithLogger(discardLogger()).Add("scn", scen)
	if primed {
		// not the first run on this F1 instance: an earlier one had every tolerance set (its verdict is of no interest);
		// the verdict of THIS run follows from its own options only
		row.Mode += "/second-run"
		_ = inst.ExecuteWithArgs([]string{"run", "constant", "-r", "3/20ms", "--distribution", "none", "--max-duration", "50ms", "--concurrency", "4",
			"--max-failures", "100000", "--max-failures-rate", "100", "--ignore-dropped", "scn"})
	}
	err := inst.ExecuteWithArgs(args)
	row.Failed = err != nil
	return row
}

// c08cliFile: the same verdict through the config-file front end (`run file cfg.yaml`): n iterations of which f fail,
// tolerances written in the limits section - or left out of it (-1), which means "not set"
func c08cliFile(dir string, n, f, maxF, maxFR int) (row c08row) {
	effF, effFR := max(maxF, 0), max(maxFR, 0)
	row = c08row{Kind: "cli", S: n - f, F: f, MaxF: effF, MaxFR: effFR, Mode: fmt.Sprintf("file(maxF=%d,maxFR=%d)", maxF, maxFR)}
	defer func() {
		if r := recover(); r != nil {
			row.Panicked = true
			row.PanicMsg = fmt.Sprint(r)
		}
	}()
	ff := f
	scen := func(t *f1testing.T) f1testing.RunFn {
		return func(t *f1testing.T) {
			var id int
			fmt.Sscan(t.Iteration, &id)
			if id <= ff {
				t.Fail()
			}
		}
	}
	y := fmt.Sprintf("scenario: scn\nlimits:\n  max-duration: 20s\n  concurrency: 4\n  max-iterations: %d\n  ignore-dropped: true\n", n)
	if maxF >= 0 {
		y += fmt.Sprintf("  max-failures: %d\n", maxF)
	}
	if maxFR >= 0 {
		y += fmt.Sprintf("  max-failures-rate: %d\n", maxFR)
	}
	y += "default:\n  mode: users\n  concurrency: 2\n  duration: 10s\nstages:\n- mode: users\n"
	p := filepath.Join(dir, fmt.Sprintf("c08-%d.yaml", time.Now().UnixNano()))
	if err := os.WriteFile(p, []byte(y), 0o600); err != nil {
		row.Panicked, row.PanicMsg = true, err.Error()
		return row
	}
	defer os.Remove(p)
	err := f1.New().WithLogger(discardLogger()).Add("scn", scen).ExecuteWithArgs([]string{"run", "file", p, "-v"})
	row.Failed = err != nil
	return row
}

// c08cliDrops: s = bodies run (all pass), d = 1 stands for "some" (the verdict rule only asks d > 0 here: no tolerance set)
func c08cliDrops(ign bool) (row c08row) {
	row = c08row{Kind: "cli", D: 1, Ign: ign, Mode: "drops"}
	defer func() {
		if r := recover(); r != nil {
			row.Panicked = true
			row.PanicMsg = fmt.Sprint(r)
		}
	}()
	var ran atomic.Int64
	scen := func(t *f1testing.T) f1testing.RunFn {
		return func(t *f1testing.T) {
			ran.Add(1)
			time.Sleep(25 * time.Millisecond)
		}
	}
	args := []string{"run", "constant", "-r", "20/10ms", "--distribution", "none", "--max-duration", "300ms", "--concurrency", "1", "-v"}
	if ign {
		args = append(args, "--ignore-dropped")
	}
	args = append(args, "scn")
	err := f1.New().WithLogger(discardLogger()).Add("scn", scen).ExecuteWithArgs(args)
	row.S = int(ran.Load())
	row.Failed = err != nil
	return row
}

// c08cliInterrupted: the user's Ctrl-C arrives while setup is still running (the driver sends itself SIGINT, which
// the run's signal context turns into the cancellation); the setup then fails or succeeds, the teardown fails or
// not: the verdict is still decided by what failed, not by how the run came to its end
func c08cliInterrupted(setupMode, teardownMode string) (row c08row) {
	row = c08row{Kind: "cli", Mode: "interrupted-during-setup:" + setupMode + "/" + teardownMode}
	if setupMode != "" || teardownMode != "" {
		row.Nerr = 1
	}
	defer func() {
		if r := recover(); r != nil {
			row.Panicked = true
			row.PanicMsg = fmt.Sprint(r)
		}
	}()
	var ran atomic.Int64
	scen := func(t *f1testing.T) f1testing.RunFn {
		if teardownMode != "" {
			t.Cleanup(func() { failWith(t, teardownMode) })
		}
		go func() {
			time.Sleep(20 * time.Millisecond)
			_ = syscall.Kill(os.Getpid(), syscall.SIGINT)
		}()
		time.Sleep(70 * time.Millisecond)
		if setupMode != "" {
			failWith(t, setupMode)
		}
		return func(*f1testing.T) { ran.Add(1) }
	}
	err := f1.New().WithLogger(discardLogger()).Add("scn", scen).ExecuteWithArgs([]string{"run", "constant", "-r", "5/10ms",
		"--distribution", "none", "--max-duration", "5s", "--concurrency", "2", "-v", "scn"})
	row.S = int(ran.Load())
	row.Failed = err != nil
	return row
}

// c15limits (for C15): the limits section of a config file is mapped one-to-one onto the run options - observed through
// what the run then does with them: verdict rows for every way of writing the two failure tolerances, through the real
// `run file <path>` command line
func init() {
	register("c15limits", func(c *ctx) error {
		w, err := newNDJSON(filepath.Join(c.out, "c15limits.ndjson"))
		if err != nil {
			return err
		}
		defer w.close()
		for _, tol := range [][2]int{{-1, -1}, {5, -1}, {4, -1}, {-1, 50}, {-1, 49}, {5, 50}, {4, 60}, {6, 40}, {0, 0}, {0, 50}, {100000, 5}, {100000, 60}, {5, 0}} {
			w.write(c08cliFile(c.out, 10, 5, tol[0], tol[1]))
		}
		// one failure of ten under a generous share, and none at all
		w.write(c08cliFile(c.out, 10, 1, -1, 50))
		w.write(c08cliFile(c.out, 10, 1, -1, 5))
		w.write(c08cliFile(c.out, 6, 0, -1, -1))
		fmt.Println("c15limits rows:", w.n)
		return nil
	})
}

func init() {
	register("c08", func(c *ctx) error {
		w, err := newNDJSON(filepath.Join(c.out, "c08.ndjson"))
		if err != nil {
			return err
		}
		defer w.close()
		// (1) the full small table — the same space MC_Verdict enumerates
		maxc := c.pick(4, 6)
		for s := 0; s <= maxc; s++ {
			for f := 0; f <= maxc; f++ {
				for d := 0; d <= maxc; d++ {
					for nerr := 0; nerr <= 2; nerr++ {
						for _, ign := range []bool{false, true} {
							for _, mf := range []int{0, 1, 2, 3} {
								for _, mfr := range []int{0, 1, 5, 50, 100} {
									w.write(c08lib(s, f, d, nerr, ign, mf, mfr))
								}
							}
						}
					}
				}
			}
		}
		// (2) random larger counts, biased to the boundary 100 f = r (s+f+d)
		nr := c.pick(400, 4000)
		for i := 0; i < nr; i++ {
			mfr := []int{0, 1, 2, 3, 5, 7, 10, 25, 33, 50, 75, 99, 100}[c.rng.Intn(13)]
			total := 1 + c.rng.Intn(c.pick(3000, 30000))
			var f int
			if mfr > 0 && c.rng.Intn(3) > 0 {
				// near the boundary
				f = mfr*total/100 + c.rng.Intn(5) - 2
			} else {
				f = c.rng.Intn(total + 1)
			}
			if f < 0 {
				f = 0
			}
			if f > total {
				f = total
			}
			d := 0
			if c.rng.Intn(2) == 0 {
				d = c.rng.Intn(total - f + 1)
			}
			s := total - f - d
			mf := 0
			if c.rng.Intn(3) == 0 {
				mf = 1 + c.rng.Intn(f+2)
			}
			w.write(c08lib(s, f, d, c.rng.Intn(5)/4, c.rng.Intn(2) == 0, mf, mfr))
		}
		// (2b) every exact boundary: all (total, rate) with 100 f = rate * total for a whole f - the tolerance is
		// met exactly (pass), one more failure exceeds it (fail); with and without dropped iterations in the total
		maxTotal := c.pick(400, 2500)
		for total := 1; total <= maxTotal; total++ {
			for rate := 1; rate <= 99; rate++ {
				if total*rate%100 != 0 {
					continue
				}
				f := total * rate / 100
				w.write(c08lib(total-f, f, 0, 0, false, 0, rate))
				if f+1 <= total {
					w.write(c08lib(total-f-1, f+1, 0, 0, false, 0, rate))
				}
				if d := (total - f) / 2; d > 0 && total%7 == 0 {
					w.write(c08lib(total-f-d, f, d, 0, true, 0, rate))
				}
			}
		}
		// (3) the real CLI
		type cli struct {
			n, f       int
			sf, tf     string
			maxF, mxFR int
		}
		cases := []cli{
			{0, 0, "", "", 0, 0}, {0, 0, "", "", 0, 5}, {0, 0, "", "", 3, 0},
			{4, 0, "", "", 0, 0}, {4, 1, "", "", 0, 0}, {4, 1, "", "", 1, 0}, {4, 2, "", "", 1, 0},
			{17, 1, "", "", 0, 5}, {20, 1, "", "", 0, 5}, {20, 2, "", "", 0, 5}, {10, 5, "", "", 0, 50},
			{10, 6, "", "", 0, 50}, {3, 0, "failnow", "", 0, 0}, {3, 0, "", "fail", 0, 0}, {3, 0, "", "fail", 5, 50},
			{3, 3, "", "", 0, 100}, {5, 2, "", "", 2, 10},
		}
		// every way setup or teardown can fail must fail the run (and nothing else does)
		for _, m := range failModes {
			cases = append(cases, cli{2, 0, m, "", 0, 0}, cli{2, 0, "", m, 0, 0})
		}
		cases = append(cases, cli{3, 1, "", "panic-error", 2, 0}, cli{3, 0, "fail", "panic-string", 5, 50})
		if !c.quick() {
			for i := 0; i < 40; i++ {
				n := 1 + c.rng.Intn(40)
				pickMode := func() string {
					if c.rng.Intn(10) == 0 {
						return failModes[c.rng.Intn(len(failModes))]
					}
					return ""
				}
				cases = append(cases, cli{n, c.rng.Intn(n + 1), pickMode(), pickMode(),
					[]int{0, 0, 1, 3}[c.rng.Intn(4)], []int{0, 0, 5, 10, 50}[c.rng.Intn(5)]})
			}
		}
		for _, k := range cases {
			w.write(c08cli(k.n, k.f, k.sf, k.tf, k.maxF, k.mxFR, false))
			w.write(c08cli(k.n, k.f, k.sf, k.tf, k.maxF, k.mxFR, true))
		}
		// tolerances given in a config file, one at a time, both, or neither: 10 iterations, 5 of them failing
		for _, tol := range [][2]int{{-1, -1}, {5, -1}, {4, -1}, {-1, 50}, {-1, 49}, {5, 50}, {4, 60}, {6, 40}} {
			w.write(c08cliFile(c.out, 10, 5, tol[0], tol[1]))
		}
		// the CLI with dropped iterations (one slow worker, 20 requests per 10 ms): every iteration passes, so the
		// command fails exactly when dropped iterations are not ignored
		for _, ign := range []bool{false, true} {
			w.write(c08cliDrops(ign))
		}
		// interrupted while setup was still running
		for _, m := range [][2]string{{"", ""}, {"fail", ""}, {"failnow", ""}, {"panic-runtime", ""}, {"require", ""}, {"", "fail"}, {"error", "panic-string"}} {
			w.write(c08cliInterrupted(m[0], m[1]))
		}
		fmt.Println("c08 observations:", w.n)
		return nil
	})
}
