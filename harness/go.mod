module github.com/form3tech-oss/f1/v2/verifharness

go 1.22.0

require (
	github.com/form3tech-oss/f1/v2 v2.0.0
	github.com/prometheus/client_golang v1.20.4
	github.com/prometheus/client_model v0.6.1
	github.com/prometheus/common v0.59.1
	github.com/stretchr/testify v1.9.0
)

require (
	github.com/beorn7/perks v1.0.1 // indirect
	github.com/cespare/xxhash/v2 v2.3.0 // indirect
	github.com/davecgh/go-spew v1.1.1 // indirect
	github.com/golang/freetype v0.0.0-20170609003504-e2365dfdc4a0 // indirect
	github.com/guptarohit/asciigraph v0.7.2 // indirect
	github.com/mattn/go-isatty v0.0.20 // indirect
	github.com/munnerz/goautoneg v0.0.0-20191010083416-a7dc8b61c822 // indirect
	github.com/pmezard/go-difflib v1.0.0 // indirect
	github.com/prometheus/procfs v0.15.1 // indirect
	github.com/sirupsen/logrus v1.9.3 // indirect
	github.com/spf13/cobra v1.8.1 // indirect
	github.com/spf13/pflag v1.0.5 // indirect
	github.com/wcharczuk/go-chart/v2 v2.1.2 // indirect
	golang.org/x/image v0.18.0 // indirect
	golang.org/x/sys v0.23.0 // indirect
	google.golang.org/protobuf v1.34.2 // indirect
	gopkg.in/yaml.v3 v3.0.1 // indirect
)

replace github.com/form3tech-oss/f1/v2 => /repo
